import Sebuf.Schema
import Sebuf.Json
import Sebuf.OaComp
/-!
`Impl`: the component schema `protoc-gen-openapiv3` emits for a message
(`internal/openapiv3/types.go` `convertScalarField` / `convertField` / `convertMapField`,
`generator.go` `buildObjectSchema`), as the parsed document shows it — `description`,
`example(s)` and validation keywords left out. Modelled: plain object messages with every
field-level annotation; NOT modelled (oracle only): root unwrap, flatten and discriminated oneof
layouts, custom enum / discriminator strings that YAML re-types.
-/
namespace Sebuf.OaSchema
open Sebuf

def sObj (kvs : List (String × Json)) : Json := Json.obj (kvs.map fun p => (p.1.toList, p.2))
def sStr (s : String) : Json := Json.str s.toList
def typed (t : String) : Json := sObj [("type", sStr t)]
def typedF (t f : String) : Json := sObj [("type", sStr t), ("format", sStr f)]
def zero : Json := Json.num (JNum.int 0)

def shortName (full : Str) : Str := ((splitOnChar '.' full).getLast?).getD []

def refTo (full : Str) : Json :=
  Json.obj [("$ref".toList, Json.str ("#/components/schemas/".toList ++ shortName full))]

def enumSchema (rq : Request) (f : Field) : Json :=
  match rq.findEnum f.typeName with
  | none => typed "string"
  | some e =>
    if f.enumEnc == 2 then
      sObj [("type", sStr "integer"), ("enum", Json.arr (e.values.map fun v => Json.num (JNum.int v.1)))]
    else
      sObj [("type", sStr "string"), ("enum", Json.arr (e.values.map fun v =>
        match v.2.2 with
        | some c => if c == [] then Json.str v.2.1 else Json.str c
        | none => Json.str v.2.1))]

def timestampSchema (f : Field) : Json :=
  match f.tsFormat with
  | 2 => typedF "integer" "unix-timestamp"
  | 3 => typedF "integer" "unix-timestamp-ms"
  | 4 => typedF "string" "date"
  | _ => typedF "string" "date-time"

def bytesSchema (f : Field) : Json :=
  match f.bytesEnc with
  | 5 => sObj [("type", sStr "string"), ("format", sStr "hex"), ("pattern", sStr "^[0-9a-fA-F]*$")]
  | 3 => typedF "string" "base64url"
  | 4 => typedF "string" "base64url"
  | _ => typedF "string" "byte"

/-- `convertScalarField`: the schema of one element of the field. -/
def scalarSchema (rq : Request) (f : Field) : Json :=
  match f.kind with
  | .bool => typed "boolean"
  | .int32 | .sint32 | .sfixed32 => typedF "integer" "int32"
  | .int64 | .sint64 | .sfixed64 => if f.int64Enc == 2 then typedF "integer" "int64" else typedF "string" "int64"
  | .uint32 | .fixed32 => sObj [("type", sStr "integer"), ("format", sStr "int32"), ("minimum", zero)]
  | .uint64 | .fixed64 =>
    if f.int64Enc == 2 then sObj [("type", sStr "integer"), ("format", sStr "uint64"), ("minimum", zero)]
    else typedF "string" "uint64"
  | .float => typedF "number" "float"
  | .double => typedF "number" "double"
  | .string => typed "string"
  | .bytes => bytesSchema f
  | .enum => enumSchema rq f
  | .message => if isTimestampName f.typeName then timestampSchema f else refTo f.typeName

/-- the synthetic `value` field of a map entry carries none of the map field's annotations. -/
def mapValueField (f : Field) : Field :=
  { name := "value".toList, kind := f.kind, typeName := f.typeName }

/-- `makeNullableSchema`: `"null"` appended to the `type` (a `$ref` has none and is left alone). -/
def makeNullable : Json → Json
  | .obj kvs =>
    (match Json.oget "type".toList kvs with
     | some (.str t) => Json.obj (Json.oset "type".toList (Json.arr [Json.str t, sStr "null"]) kvs)
     | _ => Json.obj kvs)
  | j => j

/-- `convertField`. -/
def fieldSchema (rq : Request) (f : Field) : Json :=
  match f.card with
  | .repeated => sObj [("type", sStr "array"), ("items", scalarSchema rq f)]
  | .map =>
    let vf := mapValueField f
    let ap := if f.kind == .message then
        (match rq.findMessage f.typeName with
         | some vm => (match vm.fields.find? (fun u => u.unwrap && u.card == .repeated) with
            | some u => sObj [("type", sStr "array"), ("items", scalarSchema rq u)]
            | none => scalarSchema rq vf)
         | none => scalarSchema rq vf)
      else scalarSchema rq vf
    sObj [("type", sStr "object"), ("additionalProperties", ap)]
  | _ =>
    let s := scalarSchema rq f
    if f.nullable then makeNullable s
    else if f.kind == .message && f.emptyBehavior == 2 then sObj [("oneOf", Json.arr [s, typed "null"])]
    else s

/-- a message without fields is outside the model: the renderer drops an empty `properties` map. -/
def modelled (m : Message) : Bool :=
  !(OaComp.isRootUnwrap m) && !(m.fields.any (·.flatten)) && !(m.oneofs.any (·.hasConfig)) && !m.fields.isEmpty

/-- `buildObjectSchema` for a plain object message (without `required`). -/
def messageSchema (rq : Request) (m : Message) : Json :=
  sObj [("type", sStr "object")] |> fun base =>
    match base with
    | .obj kvs => Json.obj (kvs ++ [("properties".toList, Json.obj (m.fields.map fun f => (f.json, fieldSchema rq f)))])
    | j => j

/-! ### annotation-driven layouts (`buildRootUnwrapSchema`, `buildFlattenedObjectSchema`,
`buildFlattenedOneofSchema`, `buildNestedOneofSchema`) -/

def strEnum (vals : List Str) : Json := sObj [("type", sStr "string"), ("enum", Json.arr (vals.map Json.str))]

def propsObj (ps : List (Str × Json)) : Json := Json.obj ps

/-- members of discriminated oneofs (`oneofFields`). -/
def inDiscriminatedOneof (m : Message) (f : Field) : Bool :=
  match f.oneof with
  | some o => m.oneofs.any fun d => d.name == o && d.hasConfig
  | none => false

def variantsOf (m : Message) (o : OneofDecl) : List Field := m.fields.filter (·.oneof == some o.name)

def rootUnwrapSchema (rq : Request) (f : Field) : Json :=
  if f.card == .map then
    let ap :=
      if f.kind == .message then
        (match rq.findMessage f.typeName with
         | some vm => (match vm.fields.find? (fun u => u.unwrap && u.card == .repeated) with
            | some u => sObj [("type", sStr "array"), ("items", scalarSchema rq u)]
            | none => refTo f.typeName)
         | none => refTo f.typeName)
      else scalarSchema rq (mapValueField f)
    sObj [("type", sStr "object"), ("additionalProperties", ap)]
  else sObj [("type", sStr "array"), ("items", scalarSchema rq f)]

def childFields (rq : Request) (f : Field) : List Field :=
  match rq.findMessage f.typeName with
  | some c => c.fields
  | none => []

def flattenedObjectSchema (rq : Request) (m : Message) : Json :=
  let plain := m.fields.filter (!·.flatten)
  let base := if plain.isEmpty then [] else
    [Json.obj [("type".toList, sStr "object"), ("properties".toList, propsObj (plain.map fun f => (f.json, fieldSchema rq f)))]]
  let flats := (m.fields.filter fun f => f.flatten && f.kind == .message).map fun f =>
    Json.obj [("type".toList, sStr "object"),
      ("properties".toList, propsObj ((childFields rq f).map fun c => (f.flattenPrefix ++ c.json, fieldSchema rq c)))]
  sObj [("allOf", Json.arr (base ++ flats))]

/-- `orderedmap.Set`: a later property of the same name replaces the earlier one. -/
def lastWins (l : List (Str × Json)) : List (Str × Json) :=
  l.foldl (fun acc p => acc.filter (fun q => q.1 != p.1) ++ [p]) []

def variantSchemaName (m : Message) (f : Field) : Str := m.name ++ '_' :: OaComp.variantValue f

/-- the per-variant component schemas of the flattened discriminated oneofs of `m`. -/
def flattenedVariantComponents (rq : Request) (m : Message) : List (Str × Json) :=
  let common := (m.fields.filter fun f => !(inDiscriminatedOneof m f)).map fun f => (f.json, fieldSchema rq f)
  (m.oneofs.filter fun o => o.hasConfig && o.flatten).flatMap fun o =>
    (variantsOf m o).map fun v =>
      let own := if v.kind == .message then (childFields rq v).map fun c => (c.json, fieldSchema rq c) else []
      (variantSchemaName m v,
       Json.obj [("type".toList, sStr "object"),
         ("properties".toList, propsObj (lastWins (common ++ [(o.discriminator, strEnum [OaComp.variantValue v])] ++ own))),
         ("required".toList, Json.arr [Json.str o.discriminator])])

def compRef (name : Str) : Json := Json.obj [("$ref".toList, Json.str ("#/components/schemas/".toList ++ name))]

def flattenedOneofComponent (m : Message) : Json :=
  let flat := m.oneofs.filter fun o => o.hasConfig && o.flatten
  let refs := flat.flatMap fun o => (variantsOf m o).map fun v => compRef (variantSchemaName m v)
  let disc := match flat with
    | o :: _ => [("discriminator".toList, Json.obj [("propertyName".toList, Json.str o.discriminator),
        ("mapping".toList, Json.obj ((variantsOf m o).map fun v =>
          (OaComp.variantValue v, Json.str ("#/components/schemas/".toList ++ variantSchemaName m v))))])]
    | [] => []
  Json.obj ([("oneOf".toList, Json.arr refs)] ++ disc)

def nestedOneofComponent (rq : Request) (m : Message) : Json :=
  let discs := m.oneofs.filter (·.hasConfig)
  let base := (m.fields.filter fun f => !(inDiscriminatedOneof m f)).map fun f => (f.json, fieldSchema rq f)
  let discProps := discs.map fun o => (o.discriminator, strEnum ((variantsOf m o).map OaComp.variantValue))
  let props := (base ++ discProps)
  let variants := discs.flatMap fun o => (variantsOf m o).map fun v =>
    Json.obj [("type".toList, sStr "object"),
      ("properties".toList, propsObj [(v.json, if v.kind == .message then refTo v.typeName else scalarSchema rq v)])]
  let disc := match discs.getLast? with
    | some o => [("discriminator".toList, Json.obj [("propertyName".toList, Json.str o.discriminator),
        ("mapping".toList, Json.obj (((variantsOf m o).filter (·.kind == .message)).map fun v =>
          (OaComp.variantValue v, Json.str ("#/components/schemas/".toList ++ shortName v.typeName))))])]
    | none => []
  Json.obj ([("type".toList, sStr "object"), ("properties".toList, propsObj props)] ++
    (if variants.isEmpty then [] else [("oneOf".toList, Json.arr variants)]) ++ disc)

/-- `buildObjectSchema`: which layout applies (same precedence as the generator). -/
def componentSchema (rq : Request) (m : Message) : Json :=
  if OaComp.isRootUnwrap m then
    (match m.fields with | [f] => rootUnwrapSchema rq f | _ => Json.null)
  else if m.fields.any (·.flatten) then flattenedObjectSchema rq m
  else if m.oneofs.any (·.hasConfig) then
    (if m.oneofs.any (fun o => o.hasConfig && o.flatten) then flattenedOneofComponent m else nestedOneofComponent rq m)
  else messageSchema rq m

/-- every layout is modelled except a field-less plain message (empty `properties` is not rendered). -/
def componentModelled (m : Message) : Bool :=
  OaComp.isRootUnwrap m || m.fields.any (·.flatten) || m.oneofs.any (·.hasConfig) || !m.fields.isEmpty

/-! ### built-in error schemas (`addBuiltinErrorSchemas`) -/

def errorSchema : Json :=
  sObj [("type", sStr "object"), ("properties", sObj [("message", typed "string")])]

def fieldViolationSchema : Json :=
  sObj [("type", sStr "object"), ("properties", sObj [("field", typed "string"), ("description", typed "string")]),
        ("required", Json.arr [sStr "field", sStr "description"])]

def validationErrorSchema : Json :=
  sObj [("type", sStr "object"),
        ("properties", sObj [("violations", sObj [("type", sStr "array"),
          ("items", Json.obj [("$ref".toList, sStr "#/components/schemas/FieldViolation")])])]),
        ("required", Json.arr [sStr "violations"])]

def builtinComponents : List (Str × Json) :=
  [("Error".toList, errorSchema), ("FieldViolation".toList, fieldViolationSchema), ("ValidationError".toList, validationErrorSchema)]

/-- the JSON bodies the generated server writes for its own errors. -/
def errorBody (msg : Str) : Json := Json.obj (if msg == [] then [] else [("message".toList, Json.str msg)])

def violationJson (v : Str × Str) : Json :=
  Json.obj ((if v.1 == [] then [] else [("field".toList, Json.str v.1)]) ++ (if v.2 == [] then [] else [("description".toList, Json.str v.2)]))

def validationErrorBody (vs : List (Str × Str)) : Json :=
  Json.obj (if vs == [] then [] else [("violations".toList, Json.arr (vs.map violationJson))])

end Sebuf.OaSchema
