/-
C15 (order independence): model of `annotations.CombineHeaders` (internal/annotations/headers.go)
and of the "collect map keys, `sort.Strings`" pattern the TypeScript generators use for enum
ordering.

The Go map is an association list with unique keys; `for name := range headerMap` is modelled
as the key list of the map composed with an ARBITRARY function `iter` supplied as a parameter
(the theorems of `Sebuf/Lemmas/Order.lean` assume only that `iter l` is a permutation of `l`).
-/
import Sebuf.Str

namespace Sebuf

/-- A header annotation: `name` is `Header.GetName()`, `payload` stands for all other fields. -/
structure Header where
  name : Str
  payload : Nat
deriving DecidableEq, Repr

/-- `headerMap[k] = v`: replace the binding if the key is present, else append. -/
def mapInsert (k : Str) (v : Header) : List (Str × Header) → List (Str × Header)
  | [] => [(k, v)]
  | (k', v') :: r => if k' = k then (k, v) :: r else (k', v') :: mapInsert k v r

/-- `headerMap[k]`. -/
def mapGet (k : Str) : List (Str × Header) → Option Header
  | [] => none
  | (k', v) :: r => if k' = k then some v else mapGet k r

/-- The keys of the map (in the association list's internal order, which no result depends on). -/
def mapKeys (m : List (Str × Header)) : List Str := m.map Prod.fst

/-- `for _, h := range hs { if h.GetName() != "" { headerMap[h.GetName()] = h } }`. -/
def mapInsertAll : List Header → List (Str × Header) → List (Str × Header)
  | [], m => m
  | h :: r, m => mapInsertAll r (if h.name = [] then m else mapInsert h.name h m)

/-- The two insertion loops of `CombineHeaders`: service headers first, then method headers
(so a method header overrides a service header of the same name). -/
def buildMap (service method : List Header) : List (Str × Header) :=
  mapInsertAll method (mapInsertAll service [])

/-- Go's `<` on strings restricted to code-point lists: lexicographic on `Char.toNat`
(for valid UTF-8 the byte-wise order Go uses coincides with the code-point order). -/
def strLt : Str → Str → Bool
  | [], [] => false
  | [], _ :: _ => true
  | _ :: _, [] => false
  | a :: as, b :: bs =>
    if a.toNat < b.toNat then true
    else if b.toNat < a.toNat then false
    else strLt as bs

/-- Insert into a sorted list (before the first element that is not smaller). -/
def insertSorted (x : Str) : List Str → List Str
  | [] => [x]
  | y :: ys => if strLt y x then y :: insertSorted x ys else x :: y :: ys

/-- `sort.Strings`, as insertion sort by `strLt`. -/
def sortStrs : List Str → List Str
  | [] => []
  | x :: xs => insertSorted x (sortStrs xs)

/-- `CombineHeaders`, with `iter` the order in which `range headerMap` yields the keys. -/
def combineHeadersWith (iter : List Str → List Str) (service method : List Header) : List Header :=
  if service = [] then method
  else if method = [] then service
  else
    let hm := buildMap service method
    (sortStrs (iter (mapKeys hm))).filterMap (fun k => mapGet k hm)

/-- `CombineHeaders` with the identity iteration order. -/
def combineHeaders (service method : List Header) : List Header :=
  combineHeadersWith id service method

/-- `CombineHeaders` with the `sort.Strings(names)` line removed (what a regression would be). -/
def combineHeadersUnsorted (iter : List Str → List Str) (service method : List Header) :
    List Header :=
  if service = [] then method
  else if method = [] then service
  else
    let hm := buildMap service method
    (iter (mapKeys hm)).filterMap (fun k => mapGet k hm)

/-- The TypeScript generators' enum ordering: collect the map keys, `sort.Strings`. -/
def orderedEnums (iter : List Str → List Str) (keys : List Str) : List Str :=
  sortStrs (iter keys)

end Sebuf
