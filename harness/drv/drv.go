// Package drv runs the Lean model driver (lean/.lake/build/bin/sebuf-driver) over a batch of
// JSON lines and returns its answers by id.
package drv

import (
	"bufio"
	"bytes"
	"encoding/json"
	"fmt"
	"os"
	"os/exec"
	"path/filepath"
	"strconv"
	"sync/atomic"
	"time"

	"verif/harness/plug"
)

func Path() string {
	if p := os.Getenv("VERIF_DRIVER"); p != "" {
		return p
	}
	return filepath.Join(plug.VerifDir(), "lean", ".lake", "build", "bin", "sebuf-driver")
}

func Available() bool {
	_, err := os.Stat(Path())
	return err == nil
}

// Run sends ops (each gets an "id" = its index) and returns the "out" objects in order.
var waitedInVain atomic.Bool

func Run(ops []map[string]any) ([]map[string]any, error) {
	var in bytes.Buffer
	for i, o := range ops {
		o["id"] = i
		b, err := json.Marshal(o)
		if err != nil {
			return nil, err
		}
		in.Write(b)
		in.WriteByte('\n')
	}
	// the binary is briefly absent while `lake build` relinks it: wait rather than fail — once per
	// process (when the model does not build at all, every later call would wait in vain)
	if !waitedInVain.Load() {
		for w := 0; w < 120 && !Available(); w++ {
			time.Sleep(500 * time.Millisecond)
		}
		if !Available() {
			waitedInVain.Store(true)
		}
	}
	cmd := exec.Command(Path())
	cmd.Stdin = &in
	var stdout, stderr bytes.Buffer
	cmd.Stdout = &stdout
	cmd.Stderr = &stderr
	if err := cmd.Start(); err != nil {
		return nil, err
	}
	done := make(chan error, 1)
	go func() { done <- cmd.Wait() }()
	select {
	case err := <-done:
		if err != nil {
			return nil, fmt.Errorf("driver failed: %v: %s", err, stderr.String())
		}
	case <-time.After(10 * time.Minute):
		cmd.Process.Kill()
		return nil, fmt.Errorf("driver timeout")
	}
	outs := make([]map[string]any, len(ops))
	sc := bufio.NewScanner(&stdout)
	sc.Buffer(make([]byte, 1<<20), 1<<28)
	for sc.Scan() {
		var m map[string]any
		d := json.NewDecoder(bytes.NewReader(sc.Bytes()))
		d.UseNumber()
		if err := d.Decode(&m); err != nil {
			continue
		}
		idn, ok := m["id"].(json.Number)
		if !ok {
			continue
		}
		id, _ := strconv.Atoi(idn.String())
		if id >= 0 && id < len(outs) {
			if o, ok := m["out"].(map[string]any); ok {
				outs[id] = o
			} else {
				outs[id] = map[string]any{"_": m["out"]}
			}
		}
	}
	for i, o := range outs {
		if o == nil {
			return nil, fmt.Errorf("driver gave no answer for op %d", i)
		}
	}
	return outs, nil
}
