import Sebuf.Call
import Sebuf.Lemmas.Query
import Sebuf.Lemmas.Dec
/-!
# C01 — Go client → Go server delivers the exact request and response

The full statement fails today for three recorded reasons (`octet_stream_mismatch`,
`dot_segment_redirects`, required query parameters with a zero value / on body verbs); the
proved part is every link of the URL chain, for all byte strings and all integers:

  value → fmt.Sprint → url.PathEscape / Values.Encode → request target → ServeMux match /
  URL.Query() → unescape → strconv → value

and the agreement of the codec both sides pick for the two content types the client offers,
decided over the switch tables regenerated from the emitted client and server.
-/
namespace Sebuf.C01
open Sebuf Sebuf.Call

/-- **codecs agree** for the content types the generated client exposes (JSON and x-protobuf):
request and response are encoded and decoded with the same codec on both sides. -/
theorem codecs_agree : ∀ ct ∈ ["application/json", "application/x-protobuf"],
    clientReqCodec ct = serverReqCodec ct ∧ clientRespCodec ct = serverRespCodec ct := by decide

/-- **¬ for octet-stream** (known finding C01 `content_type_codec_mismatch`): the third content
type of the property is sent as proto3 JSON by the client but decoded as binary by the server. -/
theorem octet_stream_mismatch :
    clientReqCodec "application/octet-stream" = "json" ∧ serverReqCodec "application/octet-stream" = "binary" ∧
    clientRespCodec "application/octet-stream" = "json" ∧ serverRespCodec "application/octet-stream" = "binary" := by decide

/-- a parameterised content type reaches the same server codec (`filterFlags`). -/
theorem charset_suffix_ignored : serverReqCodec "application/json; charset=utf-8" = serverReqCodec "application/json" := by decide

/-- **path value round trip**: every non-empty byte string put into a path variable survives
escaping, routing and unescaping — including '/', '?', '%', spaces and non-ASCII bytes. -/
theorem path_value_roundtrip (tpl : List Seg) (vals : Bytes → Bytes)
    (hl : ∀ s, Seg.lit s ∈ tpl → LitOK s)
    (hv : ∀ n, Seg.var n ∈ tpl → vals n ≠ [] ∧ ∀ b ∈ vals n, b < 256) :
    matchPath tpl (renderPath tpl vals) = some (pathBindings tpl vals) :=
  matchPath_renderPath tpl vals hl hv

/-- **query round trip**: every parameter the client encodes is read back with the same value. -/
theorem query_roundtrip (kvs : List (Bytes × Bytes)) (hk : (kvs.map Prod.fst).Nodup)
    (hb : ∀ p ∈ kvs, (∀ b ∈ p.1, b < 256) ∧ (∀ b ∈ p.2, b < 256)) (hne : ∀ p ∈ kvs, p.1 ≠ []) :
    ∀ p ∈ kvs, queryGet p.1 (parseQuery (encodeValues kvs)) = some p.2 :=
  parseQuery_encodeValues_get kvs hk hb hne

/-- a parameter the client elided (zero value) is absent for the server, which leaves the
field at its default — the same zero. -/
theorem elided_is_absent (kvs : List (Bytes × Bytes)) (hk : (kvs.map Prod.fst).Nodup)
    (hb : ∀ p ∈ kvs, (∀ b ∈ p.1, b < 256) ∧ (∀ b ∈ p.2, b < 256)) (hne : ∀ p ∈ kvs, p.1 ≠ [])
    (k : Bytes) (hk' : k ∉ kvs.map Prod.fst) : queryGet k (parseQuery (encodeValues kvs)) = none :=
  parseQuery_encodeValues_absent kvs hk hb hne k hk'

/-- the target is split at the first '?' into exactly the path and the query the client wrote. -/
theorem target_split (path q : Bytes) (hp : 63 ∉ path) :
    splitTarget (path ++ (if q = [] then [] else 63 :: q)) = (path, q) :=
  splitTarget_render path q hp

theorem strOfBytes_bytesOfStr (s : Str) : strOfBytes (bytesOfStr s) = s := by
  unfold strOfBytes bytesOfStr
  induction s with
  | nil => rfl
  | cons c t ih => simp [ih, Char.ofNat_toNat]

/-- **integer text round trip**: `fmt.Sprint` of any value in range, carried as bytes and parsed
back with the kind's bit size, is the value. -/
theorem int_text_roundtrip (bits : Nat) (hb : 0 < bits) (v : Int)
    (h : -(2 ^ (bits - 1) : Int) ≤ v ∧ v ≤ 2 ^ (bits - 1) - 1) :
    parseInt bits (strOfBytes (bytesOfStr (intToDec v))) = some v := by
  rw [strOfBytes_bytesOfStr]; exact parseInt_intToDec bits hb v h

theorem uint_text_roundtrip (bits n : Nat) (h : n < 2 ^ bits) :
    parseUint bits (strOfBytes (bytesOfStr (natToDec n))) = some n := by
  rw [strOfBytes_bytesOfStr]; exact parseUint_natToDec bits n h

theorem bool_text_roundtrip (b : Bool) : parseBool (strOfBytes (bytesOfStr (formatBool b))) = some b := by
  rw [strOfBytes_bytesOfStr]; exact parseBool_formatBool b

/-- decimal text never needs escaping and is never empty, so it satisfies the hypotheses of the
path and query round trips. -/
theorem dec_bytes_small (n : Nat) : ∀ b ∈ bytesOfStr (natToDec n), b < 256 := by
  intro b hb
  unfold bytesOfStr at hb
  obtain ⟨c, hc, rfl⟩ := List.mem_map.mp hb
  have := natToDec_digits n c hc
  have h9 : c ≤ '9' := this.2
  have : c.toNat ≤ '9'.toNat := h9
  have : ('9' : Char).toNat = 57 := by decide
  omega

theorem dec_nonempty (n : Nat) : bytesOfStr (natToDec n) ≠ [] := by
  unfold bytesOfStr
  intro h
  exact natToDec_ne_nil n (List.map_eq_nil_iff.mp h)

/-- **the whole URL chain for an unsigned path variable** (composition of the links above). -/
theorem uint_path_chain (tpl : List Seg) (vals : Bytes → Nat) (bits : Nat)
    (hl : ∀ s, Seg.lit s ∈ tpl → LitOK s) (hr : ∀ n, Seg.var n ∈ tpl → vals n < 2 ^ bits)
    (hd : ((pathBindings tpl (fun n => bytesOfStr (natToDec (vals n)))).map Prod.fst).Nodup)
    (n : Bytes) (hn : Seg.var n ∈ tpl) :
    ((matchPath tpl (renderPath tpl (fun n => bytesOfStr (natToDec (vals n))))).bind (queryGet n)).bind
      (fun bs => parseUint bits (strOfBytes bs)) = some (vals n) := by
  have hv : ∀ m, Seg.var m ∈ tpl → bytesOfStr (natToDec (vals m)) ≠ [] ∧ ∀ b ∈ bytesOfStr (natToDec (vals m)), b < 256 :=
    fun m _ => ⟨dec_nonempty _, dec_bytes_small _⟩
  rw [matchPath_renderPath_get tpl _ hl hv hd n hn]
  simp only [Option.bind_some]
  exact uint_text_roundtrip bits (vals n) (hr n hn)

/-- **¬ for dot segments** (known finding C01 `path_value_dot_segment`): `url.PathEscape` leaves
"." and ".." alone, so the request path needs cleaning and ServeMux redirects instead of
dispatching. -/
theorem dot_segment_redirects (tpl : List Seg) (vals : Bytes → Bytes)
    (hl : ∀ s, Seg.lit s ∈ tpl → LitOK s) (n : Bytes) (hn : Seg.var n ∈ tpl)
    (hdot : vals n = [46] ∨ vals n = [46, 46]) : needsCleaning (renderPath tpl vals) = true :=
  renderPath_needsCleaning_of_dot tpl vals hl n hn hdot

/-- and only for them: any other value keeps the path clean. -/
theorem only_dot_segments_redirect (tpl : List Seg) (vals : Bytes → Bytes) (hne : tpl ≠ [])
    (hl : ∀ s, Seg.lit s ∈ tpl → LitOK s ∧ s ≠ [46] ∧ s ≠ [46, 46])
    (hv : ∀ n, Seg.var n ∈ tpl → vals n ≠ [] ∧ ∀ b ∈ vals n, b < 256) :
    needsCleaning (renderPath tpl vals) = true ↔ ∃ n, Seg.var n ∈ tpl ∧ (vals n = [46] ∨ vals n = [46, 46]) :=
  renderPath_needsCleaning_iff_dot tpl vals hne hl hv

/-- the outcome model's classes (what the correspondence run compares with the real stack). -/
theorem outcome_ok_json_get : callOutcome { verb := "GET", ct := "application/json", pathDot := false, requiredZero := [false] } = "ok" := by decide
theorem outcome_required_zero : callOutcome { verb := "GET", ct := "application/json", pathDot := false, requiredZero := [true] } = "required_query_zero_value" := by decide
/-- a response without any populated field is zero bytes in binary, and the emitted client returns before any
codec on an empty body: the octet-stream codec mismatch cannot show on a bodiless call that is answered with it. -/
theorem outcome_octet_empty_response :
    callOutcome { verb := "DELETE", ct := "application/octet-stream", pathDot := false, requiredZero := [], respEmpty := true } = "ok" ∧
    callOutcome { verb := "DELETE", ct := "application/octet-stream", pathDot := false, requiredZero := [], respEmpty := false } = "content_type_codec_mismatch" ∧
    callOutcome { verb := "POST", ct := "application/octet-stream", pathDot := false, requiredZero := [], respEmpty := true } = "content_type_codec_mismatch" := by decide
theorem outcome_octet : callOutcome { verb := "POST", ct := "application/octet-stream", pathDot := false, requiredZero := [] } = "content_type_codec_mismatch" := by decide

/-- non-vacuity of the chain theorem: template /users/{id}/posts, id = 42, 32 bits. -/
example : let tpl := [Seg.lit [117, 115, 101, 114, 115], Seg.var [105, 100], Seg.lit [112, 111, 115, 116, 115]]
    (∀ s, Seg.lit s ∈ tpl → LitOK s) ∧ ((pathBindings tpl (fun _ => bytesOfStr (natToDec 42))).map Prod.fst).Nodup := by
  refine ⟨?_, by decide⟩
  intro s hs
  simp at hs
  rcases hs with rfl | rfl <;> decide

/-- the table a client builds from the request's path-bound fields, read by NAME: its order (the order in which the
fields are declared) does not matter as long as no name occurs twice. -/
theorem lookup_perm {α β : Type} [BEq α] [LawfulBEq α] {l₁ l₂ : List (α × β)} (hp : l₁.Perm l₂)
    (hn : l₁.Pairwise fun a b => a.1 ≠ b.1) (n : α) : l₁.lookup n = l₂.lookup n := by
  induction hp with
  | nil => rfl
  | cons x _ ih =>
    rename_i t₁ t₂
    have := ih (List.Pairwise.of_cons hn)
    cases x with
    | mk k v => simp only [List.lookup_cons]; split <;> simp_all
  | swap x y l =>
    cases x with
    | mk kx vx =>
      cases y with
      | mk ky vy =>
        have hne : ky ≠ kx := by
          have := (List.pairwise_cons.mp hn).1 (kx, vx) List.mem_cons_self
          simpa using this
        have b1 : (ky == kx) = false := by simpa using hne
        have b2 : (kx == ky) = false := by simpa using (fun e => hne e.symm)
        simp only [List.lookup_cons]
        by_cases h1 : n = ky
        · subst h1; simp [b1]
        · by_cases h2 : n = kx
          · subst h2; simp [b2]
          · have c1 : (n == ky) = false := by simpa using h1
            have c2 : (n == kx) = false := by simpa using h2
            simp [c1, c2]
  | trans h₁ h₂ ih₁ ih₂ =>
    rw [ih₁ hn]
    exact ih₂ (h₁.pairwise hn (fun h e => h e.symm))

/-- **the request path does not depend on the order in which the path-bound fields are declared**: the client fills
each `{variable}` of the template with the value of the field of that NAME; two listings of the same (name, value)
pairs — the request message's declaration order, the template's order, any other — give the same path. -/
theorem client_path_ignores_declaration_order (tpl : List Seg) {vals₁ vals₂ : List (Bytes × Bytes)}
    (hp : vals₁.Perm vals₂) (hn : vals₁.Pairwise fun a b => a.1 ≠ b.1) :
    renderPath tpl (fun n => (vals₁.lookup n).getD []) = renderPath tpl (fun n => (vals₂.lookup n).getD []) := by
  have : (fun n => (vals₁.lookup n).getD []) = (fun n => (vals₂.lookup n).getD []) := by
    funext n; rw [lookup_perm hp hn n]
  rw [this]

/-- non-vacuity: `/users/{user_id}/posts/{post_id}` with the fields declared post_id first. -/
example :
    let tpl := [Seg.lit (bytesOfStr "users".toList), Seg.var (bytesOfStr "user_id".toList), Seg.lit (bytesOfStr "posts".toList), Seg.var (bytesOfStr "post_id".toList)]
    let u : Bytes × Bytes := (bytesOfStr "user_id".toList, bytesOfStr "alice".toList)
    let p : Bytes × Bytes := (bytesOfStr "post_id".toList, bytesOfStr "p-42".toList)
    renderPath tpl (fun n => (([p, u] : List (Bytes × Bytes)).lookup n).getD []) = renderPath tpl (fun n => (([u, p] : List (Bytes × Bytes)).lookup n).getD []) ∧
    [p, u].Perm [u, p] ∧ ([p, u] : List (Bytes × Bytes)).Pairwise (fun a b => a.1 ≠ b.1) := by
  refine ⟨by decide, List.Perm.swap _ _ _, by decide⟩

end Sebuf.C01
