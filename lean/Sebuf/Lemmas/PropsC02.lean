import Sebuf.Bind
/-!
Helper lemmas for `Sebuf.Props.C02` (association-list plumbing of the binder model), together
with the two definitions their statements need (`WF`, `UrlBound`). The property theorems are in
`Sebuf/Props/C02.lean`.
-/
namespace Sebuf.C02
open Sebuf Sebuf.Bind

variable {V : Type}

theorem fget_set_same (k : Str) (v : V) (m : Fields V) : fget k (fset k v m) = some v := by
  induction m with
  | nil => simp [fset, fget]
  | cons p t ih =>
    obtain ⟨k', v'⟩ := p
    by_cases h : k' = k
    · simp [fset, fget, h]
    · simp [fset, fget, h, ih]

theorem fget_set_other (k k2 : Str) (v : V) (m : Fields V) (h : k2 ≠ k) : fget k2 (fset k v m) = fget k2 m := by
  induction m with
  | nil => simp [fset, fget]; intro e; exact absurd e.symm h
  | cons p t ih =>
    obtain ⟨k', v'⟩ := p
    by_cases h1 : k' = k
    · subst h1
      have : ¬ k' = k2 := fun e => h e.symm
      simp [fset, fget, this]
    · by_cases h2 : k' = k2
      · subst h2; simp [fset, fget, h]
      · simp [fset, fget, h1, h2, ih]

theorem fget_setAll_notmem (kvs : Fields V) (k : Str) (h : k ∉ kvs.map Prod.fst) (m : Fields V) :
    fget k (fsetAll kvs m) = fget k m := by
  unfold fsetAll
  induction kvs generalizing m with
  | nil => rfl
  | cons p t ih =>
    simp only [List.map_cons, List.mem_cons, not_or] at h
    simp only [List.foldl_cons]
    rw [ih h.2]
    exact fget_set_other p.1 k p.2 m h.1

theorem fget_setAll_mem (kvs : Fields V) (hk : (kvs.map Prod.fst).Nodup) (k : Str) (v : V)
    (h : (k, v) ∈ kvs) (m : Fields V) : fget k (fsetAll kvs m) = some v := by
  unfold fsetAll
  induction kvs generalizing m with
  | nil => cases h
  | cons p t ih =>
    simp only [List.map_cons, List.nodup_cons] at hk
    simp only [List.foldl_cons]
    rcases List.mem_cons.mp h with h1 | h1
    · subst h1
      have := fget_setAll_notmem t k hk.1 (fset k v m)
      unfold fsetAll at this
      rw [this]
      exact fget_set_same k v m
    · exact ih hk.2 h1 _

/-- request well-formedness the generator guarantees: one value per field, and (validator rule)
no field bound to both path and query. -/
def WF (r : Req V) : Prop :=
  (r.pathVals.map Prod.fst).Nodup ∧ (r.queryVals.map Prod.fst).Nodup ∧
  ∀ k ∈ r.pathVals.map Prod.fst, k ∉ r.queryVals.map Prod.fst

def UrlBound (r : Req V) (f : Str) (u : V) : Prop := (f, u) ∈ r.pathVals ∨ (f, u) ∈ r.queryVals

theorem bind_relevant (order : List Step) (r : Req V) : bindMsg order r = bindMsg (relevant order) r := by
  unfold bindMsg relevant
  generalize ([] : Fields V) = m
  induction order generalizing m with
  | nil => rfl
  | cons s t ih =>
    by_cases hs : (s = .path || s = .query || s = .body) = true
    · simp only [List.filter_cons, hs, if_true, List.foldl_cons]
      exact ih _
    · simp only [List.filter_cons, hs, if_false, List.foldl_cons]
      have : applyStep r s m = m := by
        cases s <;> first | rfl | (exfalso; apply hs; decide)
      rw [this]
      exact ih _

theorem url_value_after (r : Req V) (f : Str) (u : V) (hwf : WF r) (hb : UrlBound r f u) (m : Fields V) :
    fget f (fsetAll r.queryVals (fsetAll r.pathVals m)) = some u ∧
    fget f (fsetAll r.pathVals (fsetAll r.queryVals m)) = some u := by
  obtain ⟨hp, hq, hpq⟩ := hwf
  rcases hb with hb | hb
  · have hk : f ∈ r.pathVals.map Prod.fst := List.mem_map.mpr ⟨(f, u), hb, rfl⟩
    constructor
    · rw [fget_setAll_notmem _ _ (hpq f hk)]; exact fget_setAll_mem _ hp f u hb _
    · exact fget_setAll_mem _ hp f u hb _
  · have hk : f ∈ r.queryVals.map Prod.fst := List.mem_map.mpr ⟨(f, u), hb, rfl⟩
    have hnp : f ∉ r.pathVals.map Prod.fst := fun h => hpq f h hk
    constructor
    · exact fget_setAll_mem _ hq f u hb _
    · rw [fget_setAll_notmem _ _ hnp]; exact fget_setAll_mem _ hq f u hb _

end Sebuf.C02
