package main

import (
	"fmt"
	"regexp"
	"sort"
	"strconv"
	"strings"

	"verif/harness/ir"
	"verif/harness/plug"
)

// PropNames: under which PROPERTY NAME each emitted artefact reads or declares a request /
// response field. The probe schema gives every role (path variable, query parameter, body field)
// one field with an explicit `json_name` and one with protoc's default derivation; the REAL
// ts-client, ts-server and openapiv3 plugins are run on it and the names are read back from the
// emitted text: the interface declarations, the `req.<prop>` the client substitutes into the path
// and the query string, the `body.<prop>` the server route fills from the path and the query, the
// component schema properties. `Sebuf.C08.emitted_property_names_are_json_names` requires every
// one of them to be the descriptor's JSON name (`Field.json`).
func init() { register("PropNames", extractPropNames) }

type probeField struct{ name, jsonName, kind string }

var propProbe = []probeField{
	{"user_id", "uid", "string"}, {"tenant_name", "", "string"},
	{"page_size", "ps", "int32"}, {"sort_key", "", "string"},
	{"display_name", "label", "string"}, {"big_total", "", "int64"},
}

func extractPropNames() (string, error) {
	P := ".probe.v1."
	fld := func(i int, q bool) *ir.Field {
		p := propProbe[i]
		f := &ir.Field{Name: p.name, Number: int32(i + 1), Kind: p.kind, JSONName: p.jsonName}
		if q {
			f.Ann.Query = &ir.Query{Name: p.name}
		}
		return f
	}
	file := &ir.File{Name: "probe/names.proto", Package: "probe.v1", GoPackage: "example.com/gen/probe/v1;probev1",
		Messages: []*ir.Message{
			{Name: "GetReq", Fields: []*ir.Field{fld(0, false), fld(1, false), fld(2, true), fld(3, true)}},
			{Name: "PutReq", Fields: []*ir.Field{fld(0, false), fld(1, false), fld(4, false), fld(5, false)}},
		},
		Services: []*ir.Service{{Name: "Names", BasePath: "/n", Methods: []*ir.Method{
			{Name: "GetIt", Input: P + "GetReq", Output: P + "PutReq", Config: &ir.HTTPConfig{Path: "/{user_id}/t/{tenant_name}", Method: "GET"}},
			{Name: "PutIt", Input: P + "PutReq", Output: P + "PutReq", Config: &ir.HTTPConfig{Path: "/{user_id}/t/{tenant_name}", Method: "PUT"}},
		}}}}
	req := &ir.Request{Files: []*ir.File{file}, Generate: []string{file.Name}}
	only := func(p string) (string, error) {
		res, err := plug.Run(p, req.Clone(), nil)
		if err != nil {
			return "", err
		}
		if res.Outcome() != "ok" || len(res.Files) != 1 {
			return "", fmt.Errorf("%s on the probe schema: outcome %s, %d files", p, res.Outcome(), len(res.Files))
		}
		for _, c := range res.Files {
			return c, nil
		}
		return "", nil
	}
	type use struct{ art, role, field, prop string }
	var uses []use
	iface := func(art, text, msg string) error {
		m := regexp.MustCompile(`(?s)export interface ` + msg + ` \{\n(.*?)\n\}`).FindStringSubmatch(text)
		if m == nil {
			return fmt.Errorf("%s: interface %s not found", art, msg)
		}
		var props []string
		for _, l := range strings.Split(m[1], "\n") {
			pm := regexp.MustCompile(`^  ([A-Za-z0-9_$]+)\??:`).FindStringSubmatch(l)
			if pm == nil {
				return fmt.Errorf("%s: interface %s: unreadable member %q", art, msg, l)
			}
			props = append(props, pm[1])
		}
		var fields []*ir.Field
		for _, mm := range file.Messages {
			if mm.Name == msg {
				fields = mm.Fields
			}
		}
		if len(props) != len(fields) {
			return fmt.Errorf("%s: interface %s declares %d members for %d fields", art, msg, len(props), len(fields))
		}
		for i, f := range fields { // declaration order = field order
			uses = append(uses, use{art, "interface:" + msg, f.Name, props[i]})
		}
		return nil
	}
	// ---- ts-client
	tc, err := only(plug.TSClient)
	if err != nil {
		return "", err
	}
	for _, msg := range []string{"GetReq", "PutReq"} {
		if err := iface("ts-client", tc, msg); err != nil {
			return "", err
		}
	}
	subs := regexp.MustCompile(`path = path\.replace\("\{([a-z_]+)\}", encodeURIComponent\(String\(req\.([A-Za-z0-9_$]+)\)\)\);`).FindAllStringSubmatch(tc, -1)
	if len(subs) != 4 {
		return "", fmt.Errorf("ts-client: expected 4 path substitutions (2 routes x 2 variables), found %d", len(subs))
	}
	for i, m := range subs {
		uses = append(uses, use{"ts-client", []string{"path:GetIt", "path:PutIt"}[i/2], m[1], m[2]})
	}
	sets := regexp.MustCompile(`params\.set\("([a-z_]+)", String\(req\.([A-Za-z0-9_$]+)\)\);`).FindAllStringSubmatch(tc, -1)
	if len(sets) != 2 {
		return "", fmt.Errorf("ts-client: expected 2 query parameters, found %d", len(sets))
	}
	for _, m := range sets {
		uses = append(uses, use{"ts-client", "query:GetIt", m[1], m[2]})
	}
	// ---- ts-server
	tsv, err := only(plug.TSServer)
	if err != nil {
		return "", err
	}
	for _, msg := range []string{"GetReq", "PutReq"} {
		if err := iface("ts-server", tsv, msg); err != nil {
			return "", err
		}
	}
	fills := regexp.MustCompile(`body\.([A-Za-z0-9_$]+) = pathParams\["([a-z_]+)"\];`).FindAllStringSubmatch(tsv, -1)
	if len(fills) != 4 {
		return "", fmt.Errorf("ts-server: expected 4 path assignments, found %d", len(fills))
	}
	for i, m := range fills {
		uses = append(uses, use{"ts-server", []string{"path:GetIt", "path:PutIt"}[i/2], m[2], m[1]})
	}
	qs := regexp.MustCompile(`\n\s+([A-Za-z0-9_$]+): [^\n]*params\.get\("([a-z_]+)"\)`).FindAllStringSubmatch(tsv, -1)
	if len(qs) != 2 {
		return "", fmt.Errorf("ts-server: expected 2 query reads, found %d", len(qs))
	}
	for _, m := range qs {
		uses = append(uses, use{"ts-server", "query:GetIt", m[2], m[1]})
	}
	// ---- openapiv3: properties of the PutReq component (request body and response)
	oa, err := only(plug.OpenAPI)
	if err != nil {
		return "", err
	}
	lines := strings.Split(oa, "\n")
	start := -1
	for i, l := range lines {
		if l == "        PutReq:" {
			start = i
		}
	}
	if start < 0 {
		return "", fmt.Errorf("openapiv3: component PutReq not found")
	}
	var oaProps []string
	inProps := false
	for _, l := range lines[start+1:] {
		if !strings.HasPrefix(l, "            ") {
			break
		}
		if l == "            properties:" {
			inProps = true
			continue
		}
		if inProps && strings.HasPrefix(l, "                ") && !strings.HasPrefix(l, "                 ") {
			oaProps = append(oaProps, strings.TrimSuffix(strings.TrimSpace(l), ":"))
		} else if inProps && !strings.HasPrefix(l, "                ") {
			inProps = false
		}
	}
	put := file.Messages[1].Fields
	if len(oaProps) != len(put) {
		return "", fmt.Errorf("openapiv3: component PutReq has %d properties for %d fields: %v", len(oaProps), len(put), oaProps)
	}
	for i, f := range put {
		uses = append(uses, use{"openapiv3", "property:PutReq", f.Name, oaProps[i]})
	}
	// ---- ts-client: how a failed response becomes an error value
	errTest := regexp.MustCompile(`if \(([^)]*)\) \{\s*return this\.handleError\(resp\);`).FindStringSubmatch(tc)
	he := regexp.MustCompile(`(?s)private async handleError\(resp: Response\): Promise<never> \{(.*?)\n  \}\n`).FindStringSubmatch(tc)
	if errTest == nil || he == nil {
		return "", fmt.Errorf("ts-client: error handling not found (test %v, handleError %v)", errTest != nil, he != nil)
	}
	valTest := regexp.MustCompile(`if \(([^)]*)\) \{\s*try \{`).FindStringSubmatch(he[1])
	valNeeds := regexp.MustCompile(`if \(([^)]*)\) \{\s*throw new ValidationError\(([^)]*)\);`).FindStringSubmatch(he[1])
	apiThrow := regexp.MustCompile("throw new ApiError\\(([^;]*)\\);").FindStringSubmatch(he[1])
	if valTest == nil || valNeeds == nil || apiThrow == nil {
		return "", fmt.Errorf("ts-client: handleError has an unexpected shape")
	}
	// ---- ts-server: in which order a route's catch block tries its answers
	cb := regexp.MustCompile(`(?s)\} catch \(err: unknown\) \{\n(.*?)\n        \}\n      \},`).FindStringSubmatch(tsv)
	if cb == nil {
		return "", fmt.Errorf("ts-server: the catch block of a route was not found")
	}
	type branch struct {
		name string
		at   int
	}
	brs := []branch{{"validation", strings.Index(cb[1], "if (err instanceof ValidationError) {")}, {"hook", strings.Index(cb[1], "if (options?.onError) {")},
		{"default", strings.Index(cb[1], "const message = err instanceof Error ? err.message : String(err);")}}
	for _, b := range brs {
		if b.at < 0 {
			return "", fmt.Errorf("ts-server: the catch block has no %s branch", b.name)
		}
	}
	sort.Slice(brs, func(i, j int) bool { return brs[i].at < brs[j].at })
	var catchOrder []string
	for _, b := range brs {
		catchOrder = append(catchOrder, strconv.Quote(b.name))
	}
	hookBranch := regexp.MustCompile(`(?s)if \(options\?\.onError\) \{\n(.*?)\n          \}\n`).FindStringSubmatch(cb[1])
	valBranch := regexp.MustCompile(`(?s)if \(err instanceof ValidationError\) \{\n(.*?)\n          \}\n`).FindStringSubmatch(cb[1])
	if hookBranch == nil || valBranch == nil {
		return "", fmt.Errorf("ts-server: the catch block's branches have an unexpected shape")
	}
	squash := func(t string) string { return strings.Join(strings.Fields(t), " ") }
	sort.SliceStable(uses, func(i, j int) bool { return uses[i].art < uses[j].art })
	var b strings.Builder
	b.WriteString("-- REGENERATED by /verif/harness/cmd/extract on every run: the real ts-client, ts-server and openapiv3 plugins are run on a probe schema and the property names are read back from the emitted text. Do not edit.\n")
	b.WriteString("namespace Sebuf.Gen.PropNames\n")
	b.WriteString("/-- the probe fields: (proto name, explicit json_name or \"\" for protoc's derivation). -/\n")
	b.WriteString("def probe : List (String × String) := [\n")
	for i, p := range propProbe {
		fmt.Fprintf(&b, "  (%q, %q)%s\n", p.name, p.jsonName, map[bool]string{true: ",", false: ""}[i < len(propProbe)-1])
	}
	b.WriteString("]\n")
	b.WriteString("/-- (artefact, role, proto field name, property name the emitted text uses for it). -/\n")
	b.WriteString("def uses : List (String × String × String × String) := [\n")
	for i, u := range uses {
		fmt.Fprintf(&b, "  (%q, %q, %q, %q)%s\n", u.art, u.role, u.field, u.prop, map[bool]string{true: ",", false: ""}[i < len(uses)-1])
	}
	b.WriteString("]\n")
	b.WriteString("/-- the emitted TS client's error mapping: when a response is an error, when it is a ValidationError (status test, body test, what it carries), what the ApiError carries otherwise. -/\n")
	fmt.Fprintf(&b, "def tsClientErrorTest : String := %s\ndef tsClientValidationStatusTest : String := %s\ndef tsClientValidationBodyTest : String := %s\ndef tsClientValidationCarries : String := %s\ndef tsClientApiErrorArgs : String := %s\n",
		strconv.Quote(errTest[1]), strconv.Quote(valTest[1]), strconv.Quote(valNeeds[1]), strconv.Quote(valNeeds[2]), strconv.Quote(apiThrow[1]))
	b.WriteString("/-- the emitted TS server's catch block: the order in which its branches are tried, and what the validation and the hook branch do. -/\n")
	fmt.Fprintf(&b, "def tsServerCatchOrder : List String := [%s]\ndef tsServerValidationBranch : String := %s\ndef tsServerHookBranch : String := %s\n",
		strings.Join(catchOrder, ", "), strconv.Quote(squash(valBranch[1])), strconv.Quote(squash(hookBranch[1])))
	b.WriteString("end Sebuf.Gen.PropNames\n")
	return b.String(), nil
}
