package props

import (
	"fmt"
	"strings"
	"sync"

	"google.golang.org/protobuf/proto"
	"google.golang.org/protobuf/reflect/protoreflect"

	"verif/harness/drv"
	"verif/harness/gen"
	"verif/harness/ir"
	"verif/harness/scratch"
)

func init() { Registry["C01"] = C01 }

func bytesList(s string) []int {
	out := make([]int, 0, len(s))
	for i := 0; i < len(s); i++ {
		out = append(out, int(s[i]))
	}
	return out
}

func isZeroScalar(fd protoreflect.FieldDescriptor, v protoreflect.Value) bool {
	switch fd.Kind() {
	case protoreflect.StringKind:
		return v.String() == ""
	case protoreflect.BoolKind:
		return !v.Bool()
	case protoreflect.FloatKind, protoreflect.DoubleKind:
		return v.Float() == 0
	case protoreflect.Int32Kind, protoreflect.Sint32Kind, protoreflect.Sfixed32Kind, protoreflect.Int64Kind, protoreflect.Sint64Kind, protoreflect.Sfixed64Kind:
		return v.Int() == 0
	case protoreflect.Uint32Kind, protoreflect.Fixed32Kind, protoreflect.Uint64Kind, protoreflect.Fixed64Kind:
		return v.Uint() == 0
	}
	return false
}

// C01: Go client to Go server: every RPC delivers the exact request and response.
func C01(c *Ctx) error {
	res := c.Res
	res.Rule = "calls through the really compiled generated Go client against the really compiled generated Go server (in process): every RPC (all verbs, path/query/body placement) x boundary-biased request and response values x content type in {application/json, application/x-protobuf, application/octet-stream}; " +
		"a case is one call; non-trivial = request or response carries a non-default field; distinct by (schema, rpc, content type, request digest)"
	res.Assumptions = append(res.Assumptions, "messages are compared with proto.Equal inside the runner; path-bound values are non-empty (property text)", "route patterns are pairwise non-overlapping (documented precondition)")
	r := gen.New(c.Seed)
	n := c.N(6, 40)
	perMethod := c.N(12, 60)
	bt, items, err := buildBatch(n, func(i int) *ir.Request {
		return gen.GenRuntimeFile(r.Fork(fmt.Sprint("c01-", i)), i, gen.RuntimeOpts{ManyMethods: i%2 == 1, TrailingSlash: i%2 == 0, OptionalPath: i%3 != 2, JSONNames: i%2 == 0, AnnotatedBodies: i%3 != 0, WellKnown: i%2 == 1, ReorderPathFields: true, OddBasePaths: i%2 == 0})
	}, scratch.AddOpts{GoHTTP: true, GoClient: true}, false)
	if err != nil {
		return err
	}
	defer bt.Close()
	type kase struct {
		x      *rtItem
		mi     *methodInfo
		ct     string
		op     map[string]any
		dop    map[string]any
		uop    map[string]any
		dotVal bool
	}
	var all []*kase
	cts := []string{"application/json", "application/x-protobuf", "application/octet-stream"}
	for xi, x := range items {
		if !x.it.Built {
			res.Violation("build", "a schema generated to be valid does not build: "+x.it.GenErr+firstLines(x.it.BuildLog, 8), map[string]any{"schema": x.req})
			continue
		}
		rr := r.Fork(fmt.Sprint("cases-", xi))
		for _, mi := range x.methods() {
			md := x.msgDesc(mi.m.Input)
			od := x.msgDesc(mi.m.Output)
			for k := 0; k < perMethod; k++ {
				pb := map[string]bool{}
				for _, v := range mi.pathVars {
					pb[v] = true
				}
				dot := len(mi.pathVars) > 0 && k%37 == 36
				reqMsg := gen.RandomMessage(rr, md, &gen.ValOpts{PathBound: pb, SparseP: 2, NonFinite: true}, 0)
				if dot {
					// the recorded dot-segment case, placed deliberately
					dot = false
					for _, v := range mi.pathVars {
						fd := md.Fields().ByName(protoreflect.Name(v))
						if fd.Kind() == protoreflect.StringKind {
							reqMsg.Set(fd, protoreflect.ValueOfString(gen.Pick(rr, []string{".", ".."})))
							dot = true
						}
					}
				}
				respMsg := gen.RandomMessage(rr, od, &gen.ValOpts{SparseP: 3, NonFinite: true}, 0)
				ct := cts[k%3]
				if k%9 == 8 {
					ct = "application/json"
				}
				op := map[string]any{"op": "call", "rpc": mi.svc.Name + "." + mi.m.Name, "req_type": strings.TrimPrefix(mi.m.Input, "."),
					"req": jsonRaw(gen.PJ(reqMsg)), "handler": map[string]any{"kind": "ok", "resp": jsonRaw(gen.PJ(respMsg))}}
				if ct != "application/json" || k%2 == 0 {
					if k%4 < 2 {
						op["client_ct"] = ct
					} else {
						op["call_ct"] = ct
					}
				}
				ks := &kase{x: x, mi: mi, ct: ct, op: op, dotVal: dot}
				// model digests
				var reqZero []bool
				for _, f := range mi.query {
					if f.Ann.Query.Required {
						fd := md.Fields().ByName(protoreflect.Name(f.Name))
						reqZero = append(reqZero, isZeroScalar(fd, reqMsg.Get(fd)))
					}
				}
				if reqZero == nil {
					reqZero = []bool{}
				}
				negZero := false
				for _, f := range mi.query {
					fd := md.Fields().ByName(protoreflect.Name(f.Name))
					if (fd.Kind() == protoreflect.FloatKind || fd.Kind() == protoreflect.DoubleKind) && reqMsg.Has(fd) && reqMsg.Get(fd).Float() == 0 {
						negZero = true
					}
				}
				ks.dop = map[string]any{"op": "call_outcome", "verb": mi.verb, "ct": ct, "path_dot": dot, "required_zero": reqZero, "neg_zero_query": negZero,
					"resp_empty": proto.Size(respMsg) == 0}
				// URL the model says the client writes
				var tpl, pvals, qvals []any
				for _, seg := range strings.Split(mi.m.Config.Path, "/")[1:] {
					if strings.HasPrefix(seg, "{") {
						name := seg[1 : len(seg)-1]
						tpl = append(tpl, map[string]any{"var": name})
						fd := md.Fields().ByName(protoreflect.Name(name))
						pvals = append(pvals, map[string]any{"name": name, "bytes": bytesList(sprintField(fd, reqMsg.Get(fd)))})
					} else {
						tpl = append(tpl, map[string]any{"lit": seg})
					}
				}
				if !mi.bodyVerb() {
					for _, f := range mi.query {
						fd := md.Fields().ByName(protoreflect.Name(f.Name))
						if !isZeroScalar(fd, reqMsg.Get(fd)) {
							qvals = append(qvals, map[string]any{"name": mi.queryName(f), "bytes": bytesList(sprintField(fd, reqMsg.Get(fd)))})
						}
					}
				}
				ks.uop = map[string]any{"op": "client_url", "base": strings.TrimSuffix(mi.svc.BasePath, "/"), "template": orEmpty(tpl), "path_vals": orEmpty(pvals), "query": orEmpty(qvals)}
				all = append(all, ks)
			}
		}
	}
	byItem := map[*rtItem][]*kase{}
	for _, k := range all {
		byItem[k.x] = append(byItem[k.x], k)
	}
	outs := map[*kase]map[string]any{}
	var mu sync.Mutex
	var runErr error
	var its []*rtItem
	for x := range byItem {
		its = append(its, x)
	}
	parallel(len(its), func(i int) {
		x := its[i]
		var ops []any
		for _, k := range byItem[x] {
			ops = append(ops, k.op)
		}
		o, err := runItem(x, ops)
		mu.Lock()
		defer mu.Unlock()
		if err != nil {
			runErr = err
			return
		}
		for j, k := range byItem[x] {
			outs[k] = o[j]
		}
	})
	if runErr != nil {
		return runErr
	}
	var dops []map[string]any
	for _, k := range all {
		dops = append(dops, k.dop, k.uop)
	}
	var douts []map[string]any
	if drv.Available() {
		if douts, err = drv.Run(dops); err != nil {
			res.Corr("driver", "Lean driver failed: "+err.Error(), nil)
			douts = nil
		}
	} else {
		res.Corr("driver", "Lean driver binary missing (model did not build)", nil)
	}
	for i, k := range all {
		o := outs[k]
		rpc := k.mi.svc.Name + "." + k.mi.m.Name
		res.Case(map[string]any{"schema": k.x.it.ID, "rpc": rpc, "ct": k.ct, "req": hashStr(fmt.Sprint(k.op["req"]))}, true)
		res.Count("verb:" + k.mi.verb)
		res.Count("ct:" + k.ct)
		replay := map[string]any{"schema": k.x.req, "call": k.op, "real": o}
		if fault, _ := o["fault"].(string); fault != "" {
			res.Violation("fault", rpc+": "+fault, replay)
			continue
		}
		if he, _ := o["harness_err"].(string); he != "" {
			return fmt.Errorf("harness error in runner: %s", he)
		}
		good := o["err"] == nil && o["seen_eq"] == true && o["got_eq"] == true && jsonInt(o["called"]) == 1 && o["rpc"] == rpc
		// what went wrong, by symptom (for the report only)
		symptom := "ok"
		if !good {
			switch {
			case o["err"] != nil:
				symptom = "client returned an error: " + fmt.Sprint(o["err"])
			case jsonInt(o["called"]) != 1:
				symptom = fmt.Sprintf("handler invoked %d times", jsonInt(o["called"]))
			case o["rpc"] != rpc:
				symptom = fmt.Sprintf("reached handler %v", o["rpc"])
			case o["seen_eq"] != true:
				symptom = fmt.Sprintf("handler saw %v", o["seen"])
			default:
				symptom = fmt.Sprintf("caller got %v", o["got"])
			}
		}
		implAgrees := false
		outcome := ""
		if douts != nil {
			d := douts[2*i]
			u := douts[2*i+1]
			replay["impl"] = d
			outcome, _ = d["outcome"].(string)
			implAgrees = (outcome == "ok") == good
			if !implAgrees {
				res.Corr("call_outcome", fmt.Sprintf("%s (%s, %s): real %s; the model predicts %s", rpc, k.mi.verb, k.ct, symptom, outcome), replay)
			}
			// the request line the real client wrote vs the model's
			wire := asList(o["wire"])
			if len(wire) > 0 {
				w, _ := wire[0].(map[string]any)
				rt, _ := w["target"].(string)
				mt, _ := u["target"].(string)
				if rt != mt {
					implAgrees = false
					res.Corr("client_url", fmt.Sprintf("%s: the real client requested %q, the model says %q", rpc, rt, mt), replay)
				} else if implAgrees {
					res.CorrAgree()
				}
				if m, _ := w["method"].(string); m != k.mi.verb {
					res.Violation("verb", fmt.Sprintf("%s: client used verb %s, contract says %s", rpc, m, k.mi.verb), replay)
				}
			}
		}
		if good {
			continue
		}
		key := outcome
		if key == "" || key == "ok" {
			key = "roundtrip"
		}
		res.Divergence(key, fmt.Sprintf("%s (%s, %s): %s", rpc, k.mi.verb, k.ct, symptom), implAgrees && outcome != "ok", replay)
	}
	res.Programs = len(items)
	return nil
}

func orEmpty(l []any) []any {
	if l == nil {
		return []any{}
	}
	return l
}
