package props

import (
	"encoding/json"
	"fmt"
	"math/big"
	"net/url"
	"os"
	"os/exec"
	"path/filepath"
	"sort"
	"strconv"
	"strings"
	"sync"

	"google.golang.org/protobuf/reflect/protoreflect"
	"google.golang.org/protobuf/types/dynamicpb"

	"verif/harness/drv"
	"verif/harness/gen"
	"verif/harness/ir"
	"verif/harness/plug"
	"verif/harness/scratch"
	"verif/harness/tsdecl"
)

func init() { Registry["C07"] = checkC07 }

// tsSide is what the two TypeScript plugins really emitted for a request.
type tsSide struct {
	client, server *tsdecl.File
	clientSrc      string
	serverSrc      string
	err            string // generation / parse problem (reported by the caller)
}

func onlyFile(r *plug.Result) string {
	for _, n := range r.Order {
		return r.Files[n]
	}
	return ""
}

func runTS(req *ir.Request) *tsSide {
	ts := &tsSide{}
	for _, p := range []string{plug.TSClient, plug.TSServer} {
		pr, err := plug.Run(p, req, nil)
		if err != nil {
			ts.err = p + ": " + err.Error()
			return ts
		}
		if !pr.OK() {
			ts.err = p + " refused the schema: " + errText(pr)
			return ts
		}
		src := onlyFile(pr)
		f, err := tsdecl.Parse(src)
		if err != nil {
			ts.err = "unparseable declarations emitted by " + p + ": " + err.Error()
			return ts
		}
		if p == plug.TSClient {
			ts.client, ts.clientSrc = f, src
		} else {
			ts.server, ts.serverSrc = f, src
		}
	}
	return ts
}

func canon(v any) string {
	b, _ := json.Marshal(v)
	var x any
	d := json.NewDecoder(strings.NewReader(string(b)))
	d.UseNumber()
	if d.Decode(&x) != nil {
		return string(b)
	}
	b, _ = json.Marshal(x)
	return string(b)
}

// declDiff names the first declaration on which two declaration lists differ.
func declDiff(a, b []any) string {
	n := len(a)
	if len(b) > n {
		n = len(b)
	}
	for i := 0; i < n; i++ {
		var x, y any
		if i < len(a) {
			x = a[i]
		}
		if i < len(b) {
			y = b[i]
		}
		if canon(x) != canon(y) {
			return fmt.Sprintf("declaration #%d: %s  vs  %s", i, canon(x), canon(y))
		}
	}
	return ""
}

func toAnyList[T any](l []T) []any {
	out := make([]any, len(l))
	for i := range l {
		out[i] = l[i]
	}
	return out
}

// verdict is the driver's answer for one (type, json).
type verdict struct {
	ok       bool
	path     string
	declared string
	what     string
	consist  bool
	strictOK bool
	missing  int
}

func verdictOf(v any) verdict {
	m, _ := v.(map[string]any)
	var out verdict
	if m == nil {
		return out
	}
	out.ok, _ = m["ok"].(bool)
	out.path, _ = m["path"].(string)
	out.declared, _ = m["declared"].(string)
	out.what, _ = m["what"].(string)
	out.consist, _ = m["explain_consistent"].(bool)
	out.strictOK, _ = m["strict_ok"].(bool)
	if n, ok := m["missing_required"].(json.Number); ok {
		out.missing, _ = strconv.Atoi(n.String())
	}
	return out
}

// failureClass turns an explanation into the finite class used in divergence keys.
func failureClass(v verdict) string {
	switch v.what {
	case "undeclared property":
		return "undeclared_property"
	case "required property absent":
		return "required_property_absent"
	case "undeclared type":
		return "undeclared_type"
	}
	d := v.declared
	if strings.HasPrefix(d, "\"") {
		d = "literal"
	}
	switch d {
	case "string", "number", "boolean", "null", "unknown", "literal", "array", "record", "object", "union", "intersection":
	default:
		d = "named"
	}
	return d + "_vs_" + strings.TrimPrefix(v.what, "wire ")
}

// jsonAt follows a driver path ("/a/0/b"); object keys may themselves contain '/', so at an
// object every key that is a prefix of the remaining path is tried.
func jsonAt(v any, path string) any {
	rest := strings.TrimPrefix(path, "/")
	if rest == "" {
		return v
	}
	switch x := v.(type) {
	case map[string]any:
		for k, e := range x {
			if rest == k {
				return e
			}
			if strings.HasPrefix(rest, k+"/") {
				if r := jsonAt(e, rest[len(k):]); r != nil {
					return r
				}
			}
		}
	case []any:
		seg, tail, _ := strings.Cut(rest, "/")
		i, err := strconv.Atoi(seg)
		if err != nil || i < 0 || i >= len(x) {
			return nil
		}
		return jsonAt(x[i], "/"+tail)
	}
	return nil
}

func isNonFiniteText(v any) bool {
	s, ok := v.(string)
	return ok && (s == "NaN" || s == "Infinity" || s == "-Infinity")
}

func sameFailure(a, b verdict) bool {
	return a.ok == b.ok && (a.ok || (a.path == b.path && failureClass(a) == failureClass(b)))
}

const c07Rule = "three streams. (A) annotated schemas (every codec feature on the shapes the emitted Go compiles for, each also nested as child / list element / map value) and (B) runtime schemas (every scalar kind x cardinality, maps, nested messages, enums, oneofs, Timestamps) x boundary-biased values: the body of a real HTTP response of the really compiled Go server whose handler returns the value (cross-checked with the generated encoder marshalResponse selects) is checked against the result type the REAL emitted *_client.ts declares for an RPC returning that message, and the contract-form request body (documented mapping) the real Go decoder accepts is checked against the declared request interface; " +
	"(C) URL-bound schemas run through the REAL emitted *_server.ts under Node 22: the object the route hands to the handler is checked against the declared request interface. Declarations are read from the emitted text by harness/tsdecl; inhabitation is decided by the Lean function Sebuf.Ts.inhabits on the parsed real declarations. " +
	"Correspondence: parsed declarations and RPC request/result types == Impl.tsDecls / resultTy, real wire JSON == Impl.wireEnc, real handler argument == Impl.handlerArg. A case is one (schema, type, value, position); non-trivial = a populated field or a URL-bound value; distinct by (schema, type, value digest, position)"

func checkC07(c *Ctx) error {
	res := c.Res
	res.Rule = c07Rule
	res.Assumptions = append(res.Assumptions,
		"no TypeScript compiler exists in the sandbox: the declaration reader (harness/tsdecl) and the structural typing function (Sebuf.Ts.inhabits) are in the trusted base",
		"reading fixed in DESIGN.md: an absent property is accepted when its declared type admits the proto3 default; the stricter reading is counted under distribution strict:*",
		"enum fields hold declared numbers only (an unknown number is sent as a JSON number by protojson; not generated)",
		"responses are exchanged in-process (httptest recorder against the registered mux), JSON content type only")
	if !drv.Available() {
		res.Corr("driver", "Lean driver binary missing (model did not build)", nil)
		return nil
	}
	r := gen.New(c.Seed)
	if err := c07Codec(c, r.Fork("annot"), "annot"); err != nil {
		return err
	}
	if err := c07Codec(c, r.Fork("runtime"), "runtime"); err != nil {
		return err
	}
	return c07Handler(c, r.Fork("handler"))
}

// rpcUse says where a message type is used by the RPCs of a file.
type rpcUse struct {
	resIdx int // index (flattened over services) of the first RPC returning it, or -1
	reqIdx int
}

func rpcUses(f *ir.File) map[string]*rpcUse {
	out := map[string]*rpcUse{}
	idx := 0
	get := func(n string) *rpcUse {
		if out[n] == nil {
			out[n] = &rpcUse{-1, -1}
		}
		return out[n]
	}
	for _, s := range f.Services {
		for _, m := range s.Methods {
			if u := get(m.Output); u.resIdx < 0 {
				u.resIdx = idx
			}
			if u := get(m.Input); u.reqIdx < 0 {
				u.reqIdx = idx
			}
			idx++
		}
	}
	return out
}

// declCorrespondence compares the real declarations of both plugins with each other (oracle:
// last sentence of the property) and with the model (correspondence). Returns whether the
// parsed real declarations equal the model's.
func declCorrespondence(c *Ctx, req *ir.Request, ts *tsSide, model map[string]any, tag string) bool {
	res := c.Res
	replay := map[string]any{"schema": req}
	// oracle: the two plugins declare the same types
	if d := declDiff(toAnyList(ts.client.Decls), toAnyList(ts.server.Decls)); d != "" {
		replay["client_block"], replay["server_block"] = ts.client.Block, ts.server.Block
		res.Divergence("decls_differ", "["+tag+"] ts-client and ts-server declare different types: "+d, false, replay)
	} else if ts.client.Block != ts.server.Block {
		replay["client_block"], replay["server_block"] = ts.client.Block, ts.server.Block
		res.Divergence("decls_text_differ", "["+tag+"] ts-client and ts-server print different declaration text for the same types", false, replay)
	}
	if d := declDiff(toAnyList(ts.client.Methods), toAnyList(ts.server.Methods)); d != "" {
		res.Divergence("rpc_types_differ", "["+tag+"] ts-client and ts-server disagree on an RPC's request/result type: "+d, false, replay)
	}
	if e, ok := model["driver_err"]; ok {
		res.Corr("ts_decls", fmt.Sprintf("[%s] driver: %v", tag, e), replay)
		return false
	}
	// do the decidable hypotheses of C07.emitted_block_*_partial hold for this schema?
	if na, _ := model["no_annotations"].(bool); !na {
		res.Count("plain_theorems:schema_has_annotations")
	} else if dc, _ := model["decl_check"].(bool); !dc {
		res.Count("plain_theorems:decl_check_fails")
	} else if nd, _ := model["full_names_distinct"].(bool); !nd {
		res.Count("plain_theorems:full_names_not_distinct")
	} else {
		res.Count("plain_theorems:hypotheses_hold")
	}
	ok := true
	md, _ := model["decls"].([]any)
	if d := declDiff(toAnyList(ts.client.Decls), md); d != "" {
		replay["real"], replay["model"] = ts.client.Decls, md
		res.Corr("ts_decls", "["+tag+"] emitted declarations differ from Impl.tsDecls: "+d, replay)
		ok = false
	} else {
		res.CorrAgree()
	}
	mm, _ := model["methods"].([]any)
	if len(mm) != len(ts.client.Methods) {
		res.Corr("ts_rpc_types", fmt.Sprintf("[%s] %d RPC signatures emitted, the model has %d", tag, len(ts.client.Methods), len(mm)), replay)
		return false
	}
	for i, m := range ts.client.Methods {
		x, _ := mm[i].(map[string]any)
		if canon(m.Req) != canon(x["req"]) || canon(m.Res) != canon(x["res"]) {
			res.Corr("ts_rpc_types", fmt.Sprintf("[%s] RPC %s: emitted (%s) -> %s, model (%s) -> %s", tag, m.Name, canon(m.Req), canon(m.Res), canon(x["req"]), canon(x["res"])), replay)
			ok = false
		} else {
			res.CorrAgree()
		}
	}
	return ok
}

// c07Codec: streams A and B.
func c07Codec(c *Ctx, r *gen.R, stream string) error {
	res := c.Res
	var n, per int
	var mk func(i int) *ir.Request
	if stream == "annot" {
		n, per = c.N(8, 48), c.N(8, 30)
		mk = func(i int) *ir.Request {
			if i == 0 {
				return gen.GenShapeZoo(i) // fixed shapes the random generators rarely draw
			}
			f := gen.GenAnnotFile(r.Fork(fmt.Sprint("C07-", i)), i, gen.AnnotOpts{Safe: true})
			return &ir.Request{Files: []*ir.File{f}, Generate: []string{f.Name}}
		}
	} else {
		n, per = c.N(3, 12), c.N(8, 30)
		mk = func(i int) *ir.Request {
			return gen.GenRuntimeFile(r.Fork(fmt.Sprint("C07rt-", i)), i, gen.RuntimeOpts{ErrorTypes: i%2 == 0, JSONNames: i%3 == 1})
		}
	}
	bt, items, err := buildBatch(n, mk, scratch.AddOpts{GoHTTP: true, GoClient: true}, false)
	if err != nil {
		return err
	}
	defer bt.Close()
	// TypeScript side and model declarations
	tss := make([]*tsSide, len(items))
	parallel(len(items), func(i int) { tss[i] = runTS(items[i].req) })
	var dops []map[string]any
	for _, x := range items {
		dops = append(dops, map[string]any{"op": "ts_decls", "rq": x.req.ToModel(), "file": x.file.Name})
	}
	declOuts, err := drv.Run(dops)
	if err != nil {
		res.Corr("driver", "Lean driver failed: "+err.Error(), nil)
		return nil
	}
	declsOK := make([]bool, len(items))
	type kase struct {
		xi    int
		x     *rtItem
		full  string
		name  string
		val   *dynamicpb.Message
		use   *rpcUse
		encO  map[string]any
		decO  map[string]any
		srvO  map[string]any
		model map[string]any
	}
	var all []*kase
	for xi, x := range items {
		tag := stream + ":" + x.it.ID
		if tss[xi].err != "" {
			res.Corr("ts_emit", "["+tag+"] "+tss[xi].err, map[string]any{"schema": x.req})
			continue
		}
		declsOK[xi] = declCorrespondence(c, x.req, tss[xi], declOuts[xi], tag)
		if !x.it.Built {
			res.Count("unbuildable")
			res.Note("schema " + x.it.ID + " does not build: " + errorClass(x.it.BuildLog))
			continue
		}
		uses := rpcUses(x.file)
		rr := r.Fork(fmt.Sprint("vals-", xi))
		for _, m := range x.file.Messages {
			full := "." + x.file.Package + "." + m.Name
			u := uses[full]
			if u == nil {
				continue
			}
			md := x.msgDesc(full)
			if md == nil {
				continue
			}
			for k := 0; k < per; k++ {
				sp := 2
				if k == 0 {
					sp = 8
				}
				if k == 1 {
					sp = 0
				}
				v := gen.RandomMessage(rr, md, &gen.ValOpts{SparseP: sp, NonFinite: k%4 == 3}, 0)
				all = append(all, &kase{xi: xi, x: x, full: full, name: m.Name, val: v, use: u})
			}
		}
	}
	// model side of every case
	dops = dops[:0]
	for _, k := range all {
		dops = append(dops, map[string]any{"op": "ts_case", "rq": k.x.req.ToModel(), "file": k.x.file.Name, "type": k.full, "val": gen.ValJSON(k.val)})
	}
	if len(dops) > 0 {
		mouts, err := drv.Run(dops)
		if err != nil {
			res.Corr("driver", "Lean driver failed: "+err.Error(), nil)
			return nil
		}
		for i, k := range all {
			k.model = mouts[i]
		}
	}
	// real encoder; real decoder on the contract form
	byItem := map[int][]*kase{}
	for _, k := range all {
		byItem[k.xi] = append(byItem[k.xi], k)
	}
	var xis []int
	for xi := range byItem {
		xis = append(xis, xi)
	}
	sort.Ints(xis)
	var mu sync.Mutex
	var runErr error
	parallel(len(xis), func(i int) {
		ks := byItem[xis[i]]
		var ops []any
		for _, k := range ks {
			ops = append(ops, map[string]any{"op": "enc", "type": strings.TrimPrefix(k.full, "."), "val": jsonRaw(gen.PJ(k.val))})
			b, _ := json.Marshal(modelToPlainJSON(k.model["spec"]))
			ops = append(ops, map[string]any{"op": "dec", "type": strings.TrimPrefix(k.full, "."), "json": b64(b)})
			// the same message as the body of a real HTTP response of an RPC returning it
			if k.use.resIdx >= 0 {
				ops = append(ops, serveOpFor(k.x, k.x.methods()[k.use.resIdx], gen.PJ(k.val)))
			} else {
				ops = append(ops, map[string]any{"op": "ping"})
			}
		}
		o, err := runItem(ks[0].x, ops)
		mu.Lock()
		defer mu.Unlock()
		if err != nil {
			runErr = err
			return
		}
		for j, k := range ks {
			k.encO, k.decO, k.srvO = o[3*j], o[3*j+1], o[3*j+2]
		}
	})
	if runErr != nil {
		return runErr
	}
	// oracle: verdicts against the REAL declarations
	type ask struct {
		k   *kase
		pos string // response | request
		j   any
	}
	asksBy := map[int][]*ask{}
	for _, k := range all {
		if e, _ := k.encO["err"].(string); e == "" && k.encO["fault"] == nil && k.use.resIdx >= 0 {
			wire := k.encO["json"]
			// prefer the body of the real HTTP exchange; it must be the encoder's output
			if st, _ := k.srvO["status"].(json.Number); st.String() == "200" && k.srvO["body_json"] != nil {
				if d := firstDiff(normJSON(k.srvO["body_json"]), normJSON(wire), ""); d != "" {
					res.Corr("serve_vs_enc", fmt.Sprintf("%s: the HTTP response body differs from the encoder's output at %s", k.name, d),
						map[string]any{"schema": k.x.req, "type": k.full, "value": jsonRaw(gen.PJ(k.val)), "serve": k.srvO, "enc": k.encO})
				}
				wire = k.srvO["body_json"]
				res.Count("wire_source:http_response_body")
			} else {
				res.Count("wire_source:encoder_only")
			}
			asksBy[k.xi] = append(asksBy[k.xi], &ask{k, "response", wire})
		}
		if k.use.reqIdx >= 0 && k.decO != nil {
			if e, _ := k.decO["err"].(string); e == "" && k.decO["fault"] == nil {
				got := dynamicpb.NewMessage(k.val.Descriptor())
				b, _ := json.Marshal(k.decO["val"])
				if protojsonUnmarshal(b, got) == nil && lossyEqual(k.x.req, k.full, k.val, got) {
					asksBy[k.xi] = append(asksBy[k.xi], &ask{k, "request", modelToPlainJSON(k.model["spec"])})
				} else {
					res.Count("request_contract_form_misread_by_go_server")
				}
			} else {
				res.Count("request_contract_form_rejected_by_go_server")
			}
		}
	}
	dops = dops[:0]
	var askOrder []int
	for _, xi := range xis {
		as := asksBy[xi]
		if len(as) == 0 {
			continue
		}
		var cases []any
		for _, a := range as {
			var t any
			if a.pos == "response" {
				t = tss[xi].client.Methods[a.k.use.resIdx].Res
			} else {
				t = tss[xi].client.Methods[a.k.use.reqIdx].Req
			}
			cases = append(cases, map[string]any{"t": t, "j": a.j})
		}
		dops = append(dops, map[string]any{"op": "ts_inhabits", "decls": tss[xi].client.Decls, "cases": cases})
		askOrder = append(askOrder, xi)
	}
	var vouts []map[string]any
	if len(dops) > 0 {
		if vouts, err = drv.Run(dops); err != nil {
			res.Corr("driver", "Lean driver failed: "+err.Error(), nil)
			return nil
		}
	}
	for oi, xi := range askOrder {
		rs, _ := vouts[oi]["results"].([]any)
		for ai, a := range asksBy[xi] {
			if ai >= len(rs) {
				break
			}
			k := a.k
			v := verdictOf(rs[ai])
			populated := false
			k.val.Range(func(protoreflect.FieldDescriptor, protoreflect.Value) bool { populated = true; return false })
			res.Case(map[string]any{"schema": k.x.it.ID, "stream": stream, "type": k.name, "val": hashStr(string(gen.PJ(k.val))), "pos": a.pos}, populated)
			feat := featureOf(k.name)
			if stream == "runtime" {
				feat = "plain"
			}
			res.Count(a.pos + ":" + feat)
			if !v.consist {
				res.Corr("explain", "the driver's explanation disagrees with its verdict", map[string]any{"t": a.pos, "j": a.j})
			}
			replay := map[string]any{"schema": k.x.req, "type": k.full, "position": a.pos, "value": jsonRaw(gen.PJ(k.val)), "json": a.j,
				"declared": tss[xi].client.Block, "verdict": rs[ai], "model": k.model}
			modelled, _ := k.model["modelled"].(bool)
			// correspondence of the wire JSON itself (response position)
			wireAgrees := true
			if a.pos == "response" && modelled {
				if diff := firstDiff(normJSON(a.j), normJSON(k.model["impl"]), ""); diff != "" {
					wireAgrees = false
					res.Corr("wire:"+feat, fmt.Sprintf("%s: the real encoder's output differs from Impl.wireEnc at %s", k.name, diff), replay)
				} else {
					res.CorrAgree()
				}
			}
			var mv verdict
			if a.pos == "response" {
				mv = verdictOf(k.model["impl_as_response"])
			} else {
				mv = verdictOf(k.model["spec_as_request"])
			}
			if v.ok {
				if v.missing > 0 {
					res.Count("strict:" + a.pos + ":non_optional_property_absent")
				} else {
					res.Count("strict:" + a.pos + ":all_non_optional_present")
				}
				if declsOK[xi] && wireAgrees && (modelled || a.pos == "request") && !mv.ok {
					res.Corr("verdict:"+feat, fmt.Sprintf("%s (%s): the real JSON inhabits the real type, the model predicts a failure at %s", k.name, a.pos, mv.path), replay)
				}
				continue
			}
			// divergence from the property
			ctx := "plain"
			if stream == "annot" {
				ctx = c07Context(contextOf(k.x.req, k.full, v.path))
			}
			key := fmt.Sprintf("%s:%s:%s", a.pos, ctx, failureClass(v))
			if v.declared == "number" && isNonFiniteText(jsonAt(a.j, v.path)) {
				key = a.pos + ":non_finite_float_as_string"
			} else if a.pos == "response" && unwrapContainerSibling(k.x.req, k.full, v.path) {
				// one mechanism whatever the symptom: the container template of a map-value unwrap
				// encodes the message's OTHER fields through encoding/json
				key = "response:unwrap_container_sibling"
			}
			implAgrees := declsOK[xi] && wireAgrees
			if implAgrees && (modelled || a.pos == "request") {
				implAgrees = sameFailure(v, mv)
				if !implAgrees {
					res.Corr("verdict:"+feat, fmt.Sprintf("%s (%s): real failure at %s (%s), the model predicts ok=%v at %s", k.name, a.pos, v.path, failureClass(v), mv.ok, mv.path), replay)
				}
			}
			res.Count("divergence:" + key)
			res.Divergence(key, fmt.Sprintf("[%s] %s as %s: %s at %s (declared %s) — JSON %s", stream, k.name, a.pos, v.what, v.path, v.declared, clip(canon(a.j), 300)), implAgrees, replay)
		}
	}
	res.Programs += len(items)
	return nil
}

// unwrapContainerSibling: the failing property is a field of a message that also has a
// map-value-unwrap field (map whose value type carries a repeated unwrap field) and is not that
// field. go-http emits a MarshalJSON for such a container which encodes every other field with
// encoding/json (Go struct tags and oneof wrapper names, enums and 64-bit integers as numbers,
// Timestamps as structs) — outside the Lean wire model (Sebuf.WireEnc.modelled).
func unwrapContainerSibling(req *ir.Request, full, path string) bool {
	m, _ := req.FindMessage(full)
	if m == nil || len(m.Fields) < 2 {
		return false
	}
	first := strings.Split(strings.TrimPrefix(path, "/"), "/")[0]
	container := false
	for _, f := range m.Fields {
		if f.Card != "map" || f.Kind != "message" {
			continue
		}
		vm, _ := req.FindMessage(f.TypeName)
		if vm == nil {
			continue
		}
		for _, vf := range vm.Fields {
			if vf.Ann.Unwrap && vf.Card == "repeated" {
				container = true
				if f.JSON() == first {
					return false
				}
			}
		}
	}
	return container
}

// c07Context collapses the C05 context of a failure to (feature, top | nested): below the
// top-level message the mechanism is the same in every context (child, list element, map value,
// oneof variant) — the TS type honours the child's annotations, the Go server encodes children
// with plain protojson.
func c07Context(ctx string) string {
	feat, rest, ok := strings.Cut(ctx, "@")
	if !ok {
		return ctx
	}
	if strings.HasPrefix(rest, "top") {
		return feat + "@top"
	}
	return feat + "@nested"
}

// serveOpFor builds a request the real server dispatches to the RPC (every URL-bound field
// filled with a value of its kind, a minimal body) with a handler that returns resp.
func serveOpFor(x *rtItem, mi *methodInfo, resp []byte) map[string]any {
	text := func(kind string) string {
		switch kind {
		case "bool":
			return "true"
		case "string":
			return "x"
		}
		return "1"
	}
	target := mi.template
	for _, pv := range mi.pathVars {
		k := "string"
		if f := mi.in.Field(pv); f != nil {
			k = f.Kind
		}
		target = strings.Replace(target, "{"+pv+"}", text(k), 1)
	}
	var qs []string
	for _, qf := range mi.query {
		qs = append(qs, url.QueryEscape(mi.queryName(qf))+"="+text(qf.Kind))
	}
	if len(qs) > 0 {
		target += "?" + strings.Join(qs, "&")
	}
	op := map[string]any{"op": "serve", "method": mi.verb, "url": target, "handler": map[string]any{"kind": "ok", "resp": jsonRaw(resp)},
		"headers": [][2]string{{"Content-Type", "application/json"}}}
	if mi.bodyVerb() {
		body := "{}"
		if len(mi.in.Fields) == 1 && mi.in.Fields[0].Ann.Unwrap && mi.in.Fields[0].Card == "repeated" {
			body = "[]"
		}
		op["body"] = b64([]byte(body))
	} else {
		op["no_body"] = true
	}
	return op
}

func clip(s string, n int) string {
	if len(s) > n {
		return s[:n] + "…"
	}
	return s
}

// ---- stream C: the argument the emitted TS server passes to a handler -------------------

// genTSServerFile builds a schema for the emitted TS server: GET/DELETE routes that bind path
// variables only, query parameters only, and both on one route (the latter load since /repo
// 41e5e05 removed the second `const url`), and body verbs that bind path variables and a JSON body.
func genTSServerFile(r *gen.R, idx int) *ir.Request {
	pkg := "tsv.v1"
	P := "." + pkg + "."
	f := &ir.File{Name: fmt.Sprintf("tsv%d/api.proto", idx), Package: pkg, GoPackage: "example.com/gen/tsv/v1;tsvv1"}
	f.Enums = append(f.Enums, &ir.Enum{Name: "Color", Values: []ir.EnumValue{{Name: "COLOR_UNSPECIFIED", Number: 0}, {Name: "COLOR_RED", Number: 1}, {Name: "COLOR_BLUE", Number: 2}}})
	leaf := &ir.Message{Name: "Leaf", Fields: []*ir.Field{{Name: "street", Number: 1, Kind: "string"}, {Name: "zip_code", Number: 2, Kind: "int32"}}}
	reply := &ir.Message{Name: "Reply", Fields: []*ir.Field{{Name: "id", Number: 1, Kind: "string"}, {Name: "count", Number: 2, Kind: "int64"}}}
	f.Messages = append(f.Messages, leaf, reply)
	svc := &ir.Service{Name: "Api", BasePath: gen.Pick(r, []string{"/api/v1", "/v2", "/svc"})}
	names := []string{"user_id", "org", "page", "q", "name", "ratio", "flag", "item_id", "limit", "cursor", "since", "tenant_name", "x2", "big_value"}
	queryKinds := append([]string{"enum"}, gen.PathScalarKinds...)
	bodyPool := []*ir.Field{
		{Name: "title", Kind: "string"}, {Name: "amount", Kind: "int64"}, {Name: "small", Kind: "int32"}, {Name: "on", Kind: "bool"},
		{Name: "labels", Kind: "string", Card: "repeated"}, {Name: "props", Kind: "int32", Card: "map", MapKey: "string"},
		{Name: "home", Kind: "message", TypeName: P + "Leaf"}, {Name: "places", Kind: "message", TypeName: P + "Leaf", Card: "repeated"},
		{Name: "shade", Kind: "enum", TypeName: P + "Color"}, {Name: "weight", Kind: "double"}, {Name: "opt_num", Kind: "uint32", Card: "optional"},
	}
	shapes := []struct {
		verb        string
		path, query bool
		body        bool
	}{{"GET", true, false, false}, {"GET", false, true, false}, {"DELETE", true, false, false}, {"DELETE", false, true, false},
		{"POST", true, false, true}, {"PUT", true, false, true}, {"PATCH", false, false, true}, {"POST", true, false, true},
		// path variables AND query parameters on one route (loads since /repo 41e5e05)
		{"GET", true, true, false}, {"DELETE", true, true, false}}
	for i, sh := range shapes {
		in := &ir.Message{Name: fmt.Sprintf("Req%d", i)}
		used := map[string]bool{}
		no := int32(1)
		path := fmt.Sprintf("/r%d", i)
		if sh.path {
			nv := 1 + r.Intn(3)
			for v := 0; v < nv; v++ {
				fn := uniq(used, gen.Pick(r, names))
				pf := &ir.Field{Name: fn, Number: no, Kind: gen.Pick(r, gen.PathScalarKinds)}
				if r.P(1, 3) || (i == 0 && v == 0) {
					// explicit json_name: the handler argument's property is the descriptor's JSON name
					pf.JSONName = "x" + ir.JSONName("_"+fn)
				}
				in.Fields = append(in.Fields, pf)
				no++
				path += "/{" + fn + "}"
				if r.Bool() {
					path += fmt.Sprintf("/s%d", v)
				}
			}
		}
		if sh.query && sh.path {
			// every conversion of generateQueryParamField next to path variables: 64-bit with and
			// without int64_encoding=NUMBER, bool, enum
			forced := []*ir.Field{
				{Name: "big_plain", Kind: gen.Pick(r, []string{"int64", "uint64", "sint64", "fixed64", "sfixed64"})},
				{Name: "big_num", Kind: gen.Pick(r, []string{"int64", "uint64", "sint64", "fixed64", "sfixed64"}), Ann: ir.Ann{Int64Enc: "NUMBER"}},
				{Name: "flag_q", Kind: "bool"},
				{Name: "shade_q", Kind: "enum", TypeName: P + "Color"},
				{Name: "opt_limit", Kind: gen.Pick(r, []string{"int32", "uint32", "double", "sint32"}), Card: "optional"},
				{Name: "opt_flag", Kind: "bool", Card: "optional"},
			}
			for _, fl := range forced {
				fl.Name = uniq(used, fl.Name)
				fl.Number = no
				no++
				fl.Ann.Query = &ir.Query{Name: fl.Name}
				if r.P(1, 3) {
					fl.Ann.Query.Name = fl.Name + "_param"
				}
				in.Fields = append(in.Fields, fl)
			}
		}
		if sh.query {
			nq := 1 + r.Intn(4)
			if sh.path {
				nq = r.Intn(3)
			}
			for q := 0; q < nq; q++ {
				fn := uniq(used, gen.Pick(r, names))
				qa := &ir.Query{Name: fn}
				if r.P(1, 3) {
					qa.Name = fn + "_param"
				}
				k := gen.Pick(r, queryKinds)
				fl := &ir.Field{Name: fn, Number: no, Kind: k, Ann: ir.Ann{Query: qa}}
				if r.P(1, 4) {
					fl.JSONName = "x" + ir.JSONName("_"+fn)
				}
				if k == "enum" {
					fl.TypeName = P + "Color"
				}
				if strings.HasSuffix(k, "64") && r.P(1, 2) {
					fl.Ann.Int64Enc = "NUMBER" // declared `number`: the query conversion must follow the annotation
				}
				if k != "enum" && r.P(1, 3) {
					// proto3 `optional`: declared `name?: T`; a parameter that IS sent must still be converted to T
					fl.Card = "optional"
				}
				in.Fields = append(in.Fields, fl)
				no++
			}
		}
		if sh.body {
			nb := 1 + r.Intn(5)
			start := r.Intn(len(bodyPool))
			for b := 0; b < nb; b++ {
				bf := *bodyPool[(start+b*3)%len(bodyPool)]
				if used[bf.Name] {
					continue
				}
				used[bf.Name] = true
				bf.Number = no
				no++
				in.Fields = append(in.Fields, &bf)
			}
		}
		f.Messages = append(f.Messages, in)
		svc.Methods = append(svc.Methods, &ir.Method{Name: fmt.Sprintf("Op%d", i), Input: P + in.Name, Output: P + "Reply", Config: &ir.HTTPConfig{Path: path, Method: sh.verb}})
	}
	f.Services = append(f.Services, svc)
	return &ir.Request{Files: []*ir.File{f}, Generate: []string{f.Name}}
}

// normJSONDouble is normJSON with every number rounded to the nearest IEEE-754 double.
func normJSONDouble(v any) any {
	num := func(text string) any {
		f, err := strconv.ParseFloat(text, 64)
		if err != nil {
			return map[string]any{"#": text}
		}
		return map[string]any{"#": strconv.FormatFloat(f, 'b', -1, 64)}
	}
	switch x := v.(type) {
	case json.Number:
		return num(x.String())
	case map[string]any:
		if len(x) == 1 {
			for _, k := range []string{"$int", "$float"} {
				if t, ok := x[k].(string); ok {
					return num(t)
				}
			}
		}
		out := map[string]any{}
		for k, e := range x {
			out[k] = normJSONDouble(e)
		}
		return out
	case []any:
		out := make([]any, len(x))
		for i, e := range x {
			out[i] = normJSONDouble(e)
		}
		return out
	}
	return v
}

func uniq(used map[string]bool, base string) string {
	n := base
	for i := 2; used[n]; i++ {
		n = fmt.Sprintf("%s%d", base, i)
	}
	used[n] = true
	return n
}

const tsRunner = `
import { readFileSync } from "node:fs";
const [modPath, casesPath] = process.argv.slice(2);
const mod = await import("file://" + modPath);
const cases = JSON.parse(readFileSync(casesPath, "utf8"));
const factory = Object.keys(mod).find((k) => /^create\w+Routes$/.test(k));
let seen;
const handler = new Proxy({}, { get: (_t, _name) => async (_ctx, req) => { seen = { arg: req }; return {}; } });
const routes = mod[factory](handler);
const rep = (_k, v) => (typeof v === "number" && !Number.isFinite(v)) ? { "$nonfinite": String(v) } : (typeof v === "bigint" ? { "$bigint": String(v) } : v);
for (const c of cases) {
  seen = undefined;
  const init = { method: c.method, headers: { "Content-Type": "application/json" } };
  if (c.body !== undefined && c.body !== null) init.body = c.body;
  let out = {};
  try {
    const resp = await routes[c.route].handler(new Request("http://localhost" + c.url, init));
    out.status = resp.status;
    out.route_method = routes[c.route].method;
    out.route_path = routes[c.route].path;
    if (seen) out.arg = seen.arg; else out.body = await resp.text();
  } catch (e) {
    out.err = String(e);
  }
  console.log(JSON.stringify(out, rep));
}
`

// urlText prints a scalar the way the TS client does (`String(req.x)`); values are chosen so
// that JS and Go agree on the text.
func urlText(fd protoreflect.FieldDescriptor, v protoreflect.Value) string {
	if fd.Kind() == protoreflect.EnumKind {
		return string(fd.Enum().Values().ByNumber(v.Enum()).Name())
	}
	return sprintField(fd, v)
}

func c07Handler(c *Ctx, r *gen.R) error {
	res := c.Res
	if _, err := os.Stat(node22); err != nil {
		res.Note("node 22 not found at " + node22 + ": the TS server handler argument is not exercised")
		return nil
	}
	n, per := c.N(4, 16), c.N(4, 12)
	tmp, err := os.MkdirTemp("", "sebuf-c07-")
	if err != nil {
		return err
	}
	defer os.RemoveAll(tmp)
	runner := filepath.Join(tmp, "runner.mjs")
	if err := os.WriteFile(runner, []byte(tsRunner), 0o644); err != nil {
		return err
	}
	type hcase struct {
		mi      *methodInfo
		midx    int
		val     *dynamicpb.Message
		url     string
		body    any
		pathKV  []map[string]string
		queryKV []map[string]string
		real    map[string]any
		model   map[string]any
	}
	type schema struct {
		req   *ir.Request
		x     *rtItem
		ts    *tsSide
		cases []*hcase
		decls bool
	}
	scs := make([]*schema, n)
	var firstErr error
	var mu sync.Mutex
	parallel(n, func(i int) {
		req := genTSServerFile(r.Fork(fmt.Sprint("tsv-", i)), i)
		ds, err := gen.Descs(req)
		if err != nil {
			mu.Lock()
			firstErr = err
			mu.Unlock()
			return
		}
		sc := &schema{req: req, x: &rtItem{req: req, file: req.Files[0], descs: ds}, ts: runTS(req)}
		scs[i] = sc
		if sc.ts.err != "" {
			return
		}
		rr := r.Fork(fmt.Sprint("tsv-vals-", i))
		for midx, mi := range sc.x.methods() {
			md := sc.x.msgDesc(mi.m.Input)
			pb := map[string]bool{}
			for _, v := range mi.pathVars {
				pb[v] = true
			}
			for k := 0; k < per; k++ {
				sp := 2
				if k == 0 {
					sp = 8
				}
				v := gen.RandomMessage(rr, md, &gen.ValOpts{SparseP: sp, PathBound: pb}, 0)
				hc := &hcase{mi: mi, midx: midx, val: v}
				p := mi.template
				for _, pv := range mi.pathVars {
					fd := md.Fields().ByName(protoreflect.Name(pv))
					txt := urlText(fd, v.Get(fd))
					p = strings.Replace(p, "{"+pv+"}", url.PathEscape(txt), 1)
					hc.pathKV = append(hc.pathKV, map[string]string{"n": pv, "v": txt})
				}
				if !mi.bodyVerb() {
					q := url.Values{}
					for _, qf := range mi.query {
						fd := md.Fields().ByName(protoreflect.Name(qf.Name))
						if !v.Has(fd) {
							continue
						}
						txt := urlText(fd, v.Get(fd))
						q.Set(mi.queryName(qf), txt)
						hc.queryKV = append(hc.queryKV, map[string]string{"n": mi.queryName(qf), "v": txt})
					}
					if len(q) > 0 {
						p += "?" + q.Encode()
					}
				} else {
					b := dynamicpb.NewMessage(md)
					v.Range(func(fd protoreflect.FieldDescriptor, val protoreflect.Value) bool {
						if !pb[string(fd.Name())] {
							b.Set(fd, val)
						}
						return true
					})
					hc.body = canonJSONBytes(gen.PJ(b))
				}
				hc.url = p
				sc.cases = append(sc.cases, hc)
			}
		}
		// run the real emitted server
		mod := filepath.Join(tmp, fmt.Sprintf("m%d_server.ts", i))
		os.WriteFile(mod, []byte(sc.ts.serverSrc), 0o644)
		var cj []any
		for _, hc := range sc.cases {
			e := map[string]any{"route": hc.midx, "method": hc.mi.verb, "url": hc.url}
			if hc.body != nil {
				b, _ := json.Marshal(hc.body)
				e["body"] = string(b)
			}
			cj = append(cj, e)
		}
		cb, _ := json.Marshal(cj)
		cp := filepath.Join(tmp, fmt.Sprintf("m%d_cases.json", i))
		os.WriteFile(cp, cb, 0o644)
		cmd := exec.Command(node22, "--experimental-strip-types", "--no-warnings", runner, mod, cp)
		out, err := cmd.CombinedOutput()
		lines := strings.Split(strings.TrimSpace(string(out)), "\n")
		if err != nil || len(lines) != len(sc.cases) {
			sc.ts.err = "node run of the emitted server failed: " + firstLines(string(out), 6)
			return
		}
		for k, l := range lines {
			var m map[string]any
			d := json.NewDecoder(strings.NewReader(l))
			d.UseNumber()
			if d.Decode(&m) != nil {
				sc.ts.err = "node runner printed a non-JSON line: " + clip(l, 200)
				return
			}
			sc.cases[k].real = m
		}
	})
	if firstErr != nil {
		return firstErr
	}
	// model: declarations and handler arguments
	var dops []map[string]any
	for _, sc := range scs {
		dops = append(dops, map[string]any{"op": "ts_decls", "rq": sc.req.ToModel(), "file": sc.req.Files[0].Name})
	}
	douts, err := drv.Run(dops)
	if err != nil {
		res.Corr("driver", "Lean driver failed: "+err.Error(), nil)
		return nil
	}
	dops = dops[:0]
	type ref struct {
		sc *schema
		hc *hcase
	}
	var refs []ref
	for i, sc := range scs {
		tag := fmt.Sprintf("handler:tsv%d", i)
		if sc.ts.err != "" {
			res.Corr("ts_emit", "["+tag+"] "+sc.ts.err, map[string]any{"schema": sc.req})
			continue
		}
		sc.decls = declCorrespondence(c, sc.req, sc.ts, douts[i], tag)
		model := sc.req.ToModel()
		for _, hc := range sc.cases {
			dops = append(dops, map[string]any{"op": "ts_handler", "rq": model, "file": sc.req.Files[0].Name, "type": hc.mi.m.Input,
				"has_body": hc.mi.bodyVerb(), "path": hc.pathKV, "query": hc.queryKV, "body": hc.body})
			refs = append(refs, ref{sc, hc})
		}
	}
	if len(dops) == 0 {
		return nil
	}
	mouts, err := drv.Run(dops)
	if err != nil {
		res.Corr("driver", "Lean driver failed: "+err.Error(), nil)
		return nil
	}
	for i := range refs {
		refs[i].hc.model = mouts[i]
	}
	// oracle on the REAL server declarations
	dops = dops[:0]
	var order []*schema
	for _, sc := range scs {
		if sc.ts.err != "" {
			continue
		}
		var cases []any
		for _, hc := range sc.cases {
			cases = append(cases, map[string]any{"t": sc.ts.server.Methods[hc.midx].Req, "j": hc.real["arg"]})
		}
		dops = append(dops, map[string]any{"op": "ts_inhabits", "decls": sc.ts.server.Decls, "cases": cases})
		order = append(order, sc)
	}
	vouts, err := drv.Run(dops)
	if err != nil {
		res.Corr("driver", "Lean driver failed: "+err.Error(), nil)
		return nil
	}
	for oi, sc := range order {
		rs, _ := vouts[oi]["results"].([]any)
		for k, hc := range sc.cases {
			replay := map[string]any{"schema": sc.req, "rpc": hc.mi.m.Name, "method": hc.mi.verb, "url": hc.url, "body": hc.body, "real": hc.real, "model": hc.model,
				"declared": sc.ts.server.Block}
			res.Case(map[string]any{"schema": sc.req.Files[0].Name, "rpc": hc.mi.m.Name, "url": hc.url, "body": hashStr(canon(hc.body)), "pos": "handler_arg"}, len(hc.pathKV)+len(hc.queryKV) > 0 || hc.body != nil)
			shape := "body"
			if !hc.mi.bodyVerb() {
				shape = "query"
				if len(hc.mi.pathVars) > 0 {
					shape = "path"
					if len(hc.mi.query) > 0 {
						shape = "path+query"
					}
				}
			} else if len(hc.mi.pathVars) > 0 {
				shape = "path+body"
			}
			res.Count("handler_arg:" + shape)
			// documented limitation, counted only: int64_encoding=NUMBER above 2^53 loses precision in JavaScript
			for _, qf := range hc.mi.query {
				if qf.Ann.Int64Enc != "NUMBER" || hc.mi.bodyVerb() {
					continue
				}
				for _, kv := range hc.queryKV {
					if kv["n"] == hc.mi.queryName(qf) {
						if b, ok := new(big.Int).SetString(kv["v"], 10); ok && b.CmpAbs(new(big.Int).Lsh(big.NewInt(1), 53)) > 0 {
							res.Count("handler_arg:number_encoded_query_value_beyond_2^53")
						}
					}
				}
			}
			if hc.real["arg"] == nil {
				res.Corr("ts_handler", fmt.Sprintf("%s %s: the emitted route did not reach the handler: %v %v", hc.mi.verb, hc.url, hc.real["err"], hc.real["body"]), replay)
				continue
			}
			argAgrees := true
			// every JavaScript number is an IEEE double and JSON.stringify prints its shortest
			// round-trip digits: both sides are compared as doubles
			if diff := firstDiff(normJSONDouble(hc.real["arg"]), normJSONDouble(hc.model["arg"]), ""); diff != "" {
				argAgrees = false
				res.Corr("handler_arg", fmt.Sprintf("%s %s: the real handler argument differs from Impl.handlerArg at %s", hc.mi.verb, hc.url, diff), replay)
			} else {
				res.CorrAgree()
			}
			if k >= len(rs) {
				continue
			}
			v := verdictOf(rs[k])
			mv := verdictOf(hc.model["verdict"])
			if v.ok {
				if sc.decls && argAgrees && !mv.ok {
					res.Corr("verdict:handler_arg", "the real argument inhabits the real interface, the model predicts a failure at "+mv.path, replay)
				}
				continue
			}
			// which kind of URL binding produced the offending property?
			prop := strings.Split(strings.TrimPrefix(v.path, "/"), "/")[0]
			src := "body"
			for _, f := range hc.mi.in.Fields {
				if f.JSON() != prop {
					continue
				}
				for _, pv := range hc.mi.pathVars {
					if pv == f.Name {
						src = "path_param"
					}
				}
				if f.Ann.Query != nil && !hc.mi.bodyVerb() {
					src = "query_param"
					if f.Kind == "enum" {
						src = "query_param_enum"
					}
				}
			}
			key := fmt.Sprintf("handler_arg:%s:%s", src, failureClass(v))
			implAgrees := sc.decls && argAgrees && sameFailure(v, mv)
			if sc.decls && argAgrees && !sameFailure(v, mv) {
				res.Corr("verdict:handler_arg", fmt.Sprintf("real failure at %s (%s), the model predicts ok=%v at %s", v.path, failureClass(v), mv.ok, mv.path), replay)
			}
			res.Count("divergence:" + key)
			res.Divergence(key, fmt.Sprintf("[handler] %s %s: %s at %s (declared %s) — argument %s", hc.mi.verb, hc.url, v.what, v.path, v.declared, clip(canon(hc.real["arg"]), 300)), implAgrees, replay)
		}
	}
	res.Programs += len(scs)
	return nil
}
