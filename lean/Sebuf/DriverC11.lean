import Sebuf.Driver
import Sebuf.DriverSchema
import Sebuf.Decode
import Sebuf.ClientResp
import Sebuf.Serve
namespace Sebuf.Driver
open Sebuf.Decode

/-- Lean.Json → model Json. Numbers travel as `{"$int": text}` (integer literal form) or
`{"$float": token}`; objects as `{"$obj": [[key, value], …]}` so that duplicate keys and their
order survive. -/
instance : Inhabited Sebuf.Json := ⟨Sebuf.Json.null⟩

partial def ofLean : Lean.Json → Sebuf.Json
  | .null => .null
  | .bool b => .bool b
  | .num n => .num (.float (toString n).toList)
  | .str s => .str s.toList
  | .arr a => .arr (a.toList.map ofLean)
  | j@(.obj _) =>
    match j.getObjVal? "$int" with
    | .ok (.str s) => .num (.int (s.toInt?.getD 0))
    | _ =>
    match j.getObjVal? "$float" with
    | .ok (.str s) => .num (.float s.toList)
    | _ =>
    match j.getObjVal? "$obj" with
    | .ok (.arr a) => .obj (a.toList.map fun p => match p with
        | .arr kv =>
          let k : Str := match kv[0]? with
            | some (Lean.Json.str k) => k.toList
            | _ => []
          (k, ofLean (kv[1]?.getD Lean.Json.null))
        | _ => ([], Sebuf.Json.null))
    | _ => .null

/-- model Json → Lean.Json in the same transport form. -/
partial def toLean : Sebuf.Json → Lean.Json
  | .null => .null
  | .bool b => .bool b
  | .num (.int i) => Lean.Json.mkObj [("$int", .str (toString i))]
  | .num (.float t) => Lean.Json.mkObj [("$float", .str (String.ofList t))]
  | .str s => .str (String.ofList s)
  | .arr l => .arr (l.map toLean).toArray
  | .obj kvs => Lean.Json.mkObj [("$obj", .arr (kvs.map fun p => Lean.Json.arr #[.str (String.ofList p.1), toLean p.2]).toArray)]

/-- `time.Format` stays a leaf: the driver prints a marker the harness replaces by the real
rendering (`\u0001TS:<secs>:<nanos>`). -/
def rfcMarker (s : Int) (n : Nat) : Str := ("\x01TS:" ++ toString s ++ ":" ++ toString n).toList

/-- only `rfc` is consulted by `Impl.editMember` / `Impl.surgery` and by the canonical forms below. -/
def drvPJ : PJ :=
  { rfc := rfcMarker, int64 := fun _ _ => none, int64s := fun _ _ => none, ts := fun _ => none,
    bytes := fun _ => none, plain := fun _ _ => true }

def tplOfJson (j : Lean.Json) : Tpl :=
  match String.ofList (getStr j "tpl") with
  | "int64" => .int64 (getBool j "unsigned")
  | "int64s" => .int64s (getBool j "unsigned")
  | "nullable" => .nullable
  | "empty_null" => .emptyNull
  | "ts_secs" => .tsSecs
  | "ts_millis" => .tsMillis
  | "ts_date" => .tsDate
  | "bytes" => .bytes (getNat j "enc")
  | _ => .plain

/-- the canonical proto3 JSON member a `value` reading stands for (`none`: the member is absent). -/
def fvCanon : FV → Option Sebuf.Json
  | .unset => none
  | .int i => some (.str (intToDec i))
  | .ints l => some (.arr (l.map fun n => .str (intToDec n)))
  | .ts s n => some (.str (rfcMarker s n))
  | .bytes b => some (.str (ofBytes (b64Encode .std b)))
  | .emptyMsg => some (.obj [])
  | .other j => some j

/-- `dec_case`: tpls = [{key, tpl, …}], body = object in transport form.
impl_obj: the object the generated UnmarshalJSON hands to protojson;
members: for every binding of the body, the Spec reading and its canonical member. -/
def opDecCase (j : Lean.Json) : Lean.Json :=
  let tpls : List (Str × Tpl) := (getArr j "tpls").map fun t => (getStr t "key", tplOfJson t)
  -- proto3 JSON also accepts the original proto field name as the key of a member: the documented
  -- mapping of the field applies to it as well; the generated edits look the JSON name up only
  let stpls : List (Str × Tpl) := tpls ++ ((getArr j "tpls").filterMap fun t =>
    match getOptStr t "alt" with | some a => some (a, tplOfJson t) | none => none)
  match ofLean (j.getObjValD "body") with
  | .obj raw =>
    let members := raw.map fun p =>
      let t := Impl.tplOf stpls p.1
      match Spec.reading t p.2 with
      | .value v => Lean.Json.mkObj ([("key", jstr p.1), ("reading", .str "value")] ++
          (match fvCanon v with | some c => [("canon", toLean c)] | none => []))
      | .canonical => Lean.Json.mkObj [("key", jstr p.1), ("reading", .str "canonical"), ("canon", toLean p.2)]
      | .invalid => Lean.Json.mkObj [("key", jstr p.1), ("reading", .str "invalid")]
    Lean.Json.mkObj [("impl_obj", toLean (.obj (Impl.surgery drvPJ tpls raw))),
      ("members", .arr members.toArray),
      ("dup", .bool (decide ((Impl.goMap raw).length ≠ raw.length)))]
  | _ => Lean.Json.mkObj [("driver_err", .str "body is not an object")]

/-- `serve_case`: the body step for a content type, a verb and what `io.ReadAll` returned. The
decoders' verdicts on the bytes that arrived come from the harness (`json_ok`: the generated
JSON path as `dec_case` + the real protojson predict it; `bin_ok`: the real proto.Unmarshal). -/
def opServeCase (j : Lean.Json) : Lean.Json :=
  let n := getNat j "got_len"
  let got : Bytes := List.replicate n 0
  let rr : ReadResult := if getBool j "failed" then .failed got (getBool j "eof") else .complete got
  let ct := String.ofList (getStr j "ct")
  let codec := Sebuf.Call.serverReqCodec ct
  let bodyVerb := Gen.Pipeline.bodyVerbs.contains (String.ofList (getStr j "verb"))
  let dec (ok : Bool) : Bytes → Option (Sebuf.Bind.Fields Unit) := fun _ => if ok then some [] else none
  let run (bi : BodyIn) : String × String :=
    if !bodyVerb then ("dispatch", "ignored") else
    match bi with
    | .reject => ("bad400", "rejected")
    | .skip => ("dispatch", "skipped")
    | .decode b =>
      match Sebuf.Serve.serveBody (dec (getBool j "json_ok")) (dec (getBool j "bin_ok")) { bodyVerb := true, rawBody := b, ct := ct } [] with
      | .dispatch _ => ("dispatch", "decoded")
      | .bad400 _ => ("bad400", "undecodable")
  let field : String := match Sebuf.Serve.serveBody (V := Unit) (fun _ => none) (fun _ => none) { bodyVerb := true, rawBody := [0], ct := ct } [] with
    | .bad400 f => String.ofList f
    | .dispatch _ => ""
  let impl := run (if codec == "binary" then Impl.readBinary rr else Impl.readJSON rr)
  let spec := run (Spec.read rr)
  Lean.Json.mkObj [("codec", .str codec), ("impl", .str impl.1), ("impl_how", .str impl.2),
    ("spec", .str spec.1), ("spec_how", .str spec.2), ("field", .str field), ("body_verb", .bool bodyVerb)]

/-- `child_key`: does encoding/json decode the member filed under `key` into the child struct. -/
def opChildKey (j : Lean.Json) : Lean.Json :=
  Lean.Json.mkObj [("decoded", .bool (childKeyDecoded (getStrList j "tags") (getStr j "key")))]

/-- `aux_case`: the points where the structural decoders lose track of a member. -/
def opAuxCase (j : Lean.Json) : Lean.Json :=
  let yes (b : Bool) : Lean.Json := .str (if b then "dispatch" else "reject")
  match String.ofList (getStr j "what") with
  | "child_key" =>
    -- a member filed under `key` for a child struct with json tags `tags`: decoded, or dropped unseen
    let seen := childKeyDecoded (getStrList j "tags") (getStr j "key")
    Lean.Json.mkObj [("impl", .str (if seen then "decoded" else "ignored")), ("spec", .str "decoded")]
  | "container_key" =>
    let seen := Impl.containerLooksAt (getStrList j "known") (getStr j "key")
    Lean.Json.mkObj [("impl", .str (if seen then "decoded" else "ignored")), ("spec", .str "decoded")]
  | "container_root" =>
    let b := ofLean (j.getObjValD "body")
    Lean.Json.mkObj [("impl", yes (Impl.containerRoot b).isSome), ("spec", yes (Spec.containerRoot b).isSome)]
  | "utf8" =>
    let v := getBool j "valid"
    Lean.Json.mkObj [("impl", yes (Impl.goStringAccepts v)), ("spec", yes (Spec.stringAccepts v))]
  | "oneof_overwrite" =>
    -- is the body's own member under the variant key still there after the generated assignment?
    let k := getStr j "key"
    let own := ofLean (j.getObjValD "own")
    let after := Impl.oneofFlatAssign k (.obj []) [(k, own)]
    Lean.Json.mkObj [("impl", .str (if Sebuf.Json.oget k after == some own then "decoded" else "ignored")), ("spec", .str "decoded")]
  | "dup_shadow" =>
    -- does the Go map still hold every binding of `key`?
    let k := getStr j "key"
    (match ofLean (j.getObjValD "body") with
     | .obj raw =>
       let n := (raw.filter (·.1 == k)).length
       let m := ((Impl.goMap raw).filter (·.1 == k)).length
       Lean.Json.mkObj [("impl", .str (if m < n then "ignored" else "decoded")), ("spec", .str "decoded")]
     | _ => Lean.Json.mkObj [("driver_err", .str "body is not an object")])
  | "unwrap_elems" =>
    -- non-null elements arrive as `true` when the real element decoder accepted them
    let b := ofLean (j.getObjValD "body")
    let ok : Sebuf.Json → Bool := fun e => e == .bool true
    Lean.Json.mkObj [("impl", yes (Impl.unwrapElems ok b)), ("spec", yes (Spec.unwrapElems ok b))]
  | "unwrap_ints" =>
    let b := ofLean (j.getObjValD "body")
    Lean.Json.mkObj [("impl", yes (Impl.unwrapInts b).isSome), ("spec", yes (Spec.unwrapInts b).isSome)]
  | "err_body" =>
    let name : ErrBody → String | .validationError => "validation_error" | .plainText => "plain_text"
    Lean.Json.mkObj [("impl", .str (name (Impl.errorBody (getBool j "utf8")))), ("spec", .str (name (Spec.errorBody (getBool j "utf8"))))]
  | _ => Lean.Json.mkObj [("driver_err", .str "unknown aux case")]

def errKindName : ClientResp.ErrKind → String
  | .execute => "execute" | .read => "read" | .validation => "validation" | .error => "error"
  | .status => "status" | .decode => "decode"

/-- `client_case`: the decoders' verdicts on the body come from the harness (real library). -/
def opClientCase (j : Lean.Json) : Lean.Json :=
  let body : Bytes := List.replicate (getNat j "body_len") 0
  let verdict (what : String) : String → Bytes → Option Unit := fun codec _ =>
    if getBool (j.getObjValD codec) what then some () else none
  let d : ClientResp.Decoders Unit Unit Unit :=
    { msg := verdict "msg_ok", zeroMsg := (), verr := verdict "verr_ok", zeroVerr := (), gerr := verdict "gerr_ok", zeroGerr := () }
  let status : Int := match j.getObjValAs? Int "status" with | .ok n => n | .error _ => 0
  let ex : ClientResp.Exchange :=
    match String.ofList (getStr j "exchange") with
    | "do_error" => .doError
    | "read_error" => .readError status
    | _ => .response status body
  let ct := String.ofList (getStr j "ct")
  match ClientResp.outcome d ct ex with
  | .ok _ => Lean.Json.mkObj [("outcome", .str "ok"), ("codec", .str (Sebuf.Call.clientRespCodec ct))]
  | .err k => Lean.Json.mkObj [("outcome", .str (errKindName k)), ("codec", .str (Sebuf.Call.clientRespCodec ct))]

end Sebuf.Driver
