/-
Byte-string text encodings used by sebuf's `bytes_encoding` annotation: Go `encoding/hex`
and the four Go `encoding/base64` encodings (`StdEncoding`, `RawStdEncoding`, `URLEncoding`,
`RawURLEncoding`), at the byte level.

A byte is a `Nat` (`< 256` is an explicit hypothesis of the theorems that need it); a byte
string is a `List Nat`, and so is encoded text (ASCII codes). Everything here is
structurally recursive so that `decide`, `rfl` and `simp` can evaluate closed terms.
Definitions only; theorems are in `Sebuf/Lemmas/Bytes.lean`.

Sources transcribed:
* Go `encoding/hex.EncodeToString` (`hextable = "0123456789abcdef"`, two digits per byte) and
  `hex.DecodeString` / `hex.Decode` (`reverseHexTable` accepts `0-9 a-f A-F`; any other byte
  is `InvalidByteError`; odd length is `ErrLength`; both are `none` here).
* Go `encoding/base64.(*Encoding).Encode` (three bytes -> four characters; a final group of
  one or two bytes gives two or three characters followed by `=` padding for the padded
  encodings and nothing for the raw ones) and `(*Encoding).Decode` / `decodeQuantum` for the
  default, non-`Strict()` encodings:
  - `'\r'` and `'\n'` are skipped wherever they occur (also inside and after the padding);
  - a character outside the alphabet that is not the padding character is
    `CorruptInputError`; the raw encodings have no padding character, so they reject `=`;
  - the input ends inside a quantum: after 1 character always an error; after 2 or 3
    characters an error for the padded encodings and 1 or 2 bytes for the raw ones;
  - a padding character as 1st or 2nd character of a quantum is an error; as 3rd it must be
    followed by a second one; after the padding only `'\r'`/`'\n'` may follow, anything
    else is "trailing garbage";
  - non-zero trailing bits in the last character are accepted (only `Strict()` rejects).
  Every error is `none` here (`DecodeString` returns a non-nil error).
* sebuf `proto/sebuf/http/annotations.proto`, `enum BytesEncoding`, and
  `internal/httpgen/bytes_encoding.go` / `internal/clientgen/bytes_encoding.go`, which pick
  the Go encoding for each enum value (unspecified and unknown values behave as BASE64,
  i.e. protojson's standard padded base64).
-/
namespace Sebuf

/-- A byte string. Each element is meant to be `< 256`. -/
abbrev Bytes := List Nat

/-! ## Hex (Go `encoding/hex`) -/

/-- `"0123456789abcdef"[n]` for a nibble `n < 16` (ASCII code of the digit). -/
def hexLowerDigit (n : Nat) : Nat :=
  if n < 10 then 48 + n else 87 + n

/-- Go `reverseHexTable`: value of a hex digit of either case, `none` for any other byte. -/
def hexDigitVal (c : Nat) : Option Nat :=
  if 48 ≤ c ∧ c ≤ 57 then some (c - 48)
  else if 97 ≤ c ∧ c ≤ 102 then some (c - 87)
  else if 65 ≤ c ∧ c ≤ 70 then some (c - 55)
  else none

/-- Go `hex.EncodeToString`. -/
def hexEncode : Bytes → List Nat
  | [] => []
  | b :: bs => hexLowerDigit (b / 16 % 16) :: hexLowerDigit (b % 16) :: hexEncode bs

/-- Go `hex.DecodeString`; `none` stands for any error. -/
def hexDecode : List Nat → Option Bytes
  | [] => some []
  | [_] => none
  | p :: q :: rest =>
    match hexDigitVal p, hexDigitVal q, hexDecode rest with
    | some a, some b, some r => some ((a * 16 + b) :: r)
    | _, _, _ => none

/-! ## Base64 (Go `encoding/base64`) -/

/-- Go's four predefined encodings: `StdEncoding`, `RawStdEncoding`, `URLEncoding`,
`RawURLEncoding`. -/
inductive B64Variant
  | std | rawStd | url | rawUrl
  deriving DecidableEq, Repr, Inhabited

/-- Whether the variant uses the URL-safe alphabet (`-` `_` instead of `+` `/`). -/
def B64Variant.isUrl : B64Variant → Bool
  | .std => false
  | .rawStd => false
  | .url => true
  | .rawUrl => true

/-- Whether the variant pads with `=` (`StdPadding`) or not (`NoPadding`). -/
def B64Variant.isPadded : B64Variant → Bool
  | .std => true
  | .rawStd => false
  | .url => true
  | .rawUrl => false

/-- ASCII code of `=`, Go `StdPadding`. -/
def b64Pad : Nat := 61

/-- ASCII code of the 63rd alphabet character (value 62): `+` or `-`. -/
def b64Char62 (url : Bool) : Nat := if url then 45 else 43

/-- ASCII code of the 64th alphabet character (value 63): `/` or `_`. -/
def b64Char63 (url : Bool) : Nat := if url then 95 else 47

/-- The alphabet as a function: ASCII code of the character for the 6-bit value `n`.
`A-Z` for 0-25, `a-z` for 26-51, `0-9` for 52-61, then the two variant specific ones. -/
def b64Char (url : Bool) (n : Nat) : Nat :=
  if n < 26 then 65 + n
  else if n < 52 then 71 + n
  else if n < 62 then n - 4
  else if n = 62 then b64Char62 url
  else b64Char63 url

/-- Go `decodeMap`: 6-bit value of an alphabet character, `none` (Go `0xff`) otherwise. -/
def b64Val (url : Bool) (c : Nat) : Option Nat :=
  if 65 ≤ c ∧ c ≤ 90 then some (c - 65)
  else if 97 ≤ c ∧ c ≤ 122 then some (c - 71)
  else if 48 ≤ c ∧ c ≤ 57 then some (c + 4)
  else if c = b64Char62 url then some 62
  else if c = b64Char63 url then some 63
  else none

/-- Go `(*Encoding).Encode` for the alphabet chosen by `url` and padding chosen by `pad`. -/
def b64EncodeCore (url pad : Bool) : Bytes → List Nat
  | [] => []
  | [a] =>
    b64Char url (a / 4 % 64) :: b64Char url (a % 4 * 16) ::
      (if pad then [b64Pad, b64Pad] else [])
  | [a, b] =>
    b64Char url (a / 4 % 64) :: b64Char url (a % 4 * 16 + b / 16 % 16) ::
      b64Char url (b % 16 * 4) :: (if pad then [b64Pad] else [])
  | a :: b :: c :: rest =>
    b64Char url (a / 4 % 64) :: b64Char url (a % 4 * 16 + b / 16 % 16) ::
      b64Char url (b % 16 * 4 + c / 64 % 4) :: b64Char url (c % 64) ::
      b64EncodeCore url pad rest

/-- The bytes produced by a quantum of 2, 3, 4 six-bit values
(Go: `val := d0<<18 | d1<<12 | d2<<6 | d3`, then `byte(val>>16)`, `byte(val>>8)`, `byte(val)`;
bits that do not fit are dropped, which is Go's non-strict leniency). -/
def b64Byte0 (x0 x1 : Nat) : Nat := x0 % 64 * 4 + x1 / 16 % 4
def b64Byte1 (x1 x2 : Nat) : Nat := x1 % 16 * 16 + x2 / 4 % 16
def b64Byte2 (x2 x3 : Nat) : Nat := x2 % 4 * 64 + x3 % 64

/-- Go `(*Encoding).Decode` on input from which `'\r'` and `'\n'` were already removed.
`pad = true`: padding character `=` required; `pad = false`: Go `NoPadding`. -/
def b64DecodeCore (url pad : Bool) : List Nat → Option Bytes
  | [] => some []
  | [_] => none
  | [c0, c1] =>
    if pad then none
    else
      match b64Val url c0, b64Val url c1 with
      | some x0, some x1 => some [b64Byte0 x0 x1]
      | _, _ => none
  | [c0, c1, c2] =>
    if pad then none
    else
      match b64Val url c0, b64Val url c1, b64Val url c2 with
      | some x0, some x1, some x2 => some [b64Byte0 x0 x1, b64Byte1 x1 x2]
      | _, _, _ => none
  | c0 :: c1 :: c2 :: c3 :: rest =>
    match b64Val url c0, b64Val url c1, b64Val url c2, b64Val url c3 with
    | some x0, some x1, some x2, some x3 =>
      match b64DecodeCore url pad rest with
      | some r => some (b64Byte0 x0 x1 :: b64Byte1 x1 x2 :: b64Byte2 x2 x3 :: r)
      | none => none
    | some x0, some x1, some x2, none =>
      if pad && c3 == b64Pad && rest.isEmpty then some [b64Byte0 x0 x1, b64Byte1 x1 x2]
      else none
    | some x0, some x1, none, none =>
      if pad && c2 == b64Pad && c3 == b64Pad && rest.isEmpty then some [b64Byte0 x0 x1]
      else none
    | _, _, _, _ => none

/-- Go's decoder ignores `'\r'` (13) and `'\n'` (10) everywhere. -/
def b64Keep (c : Nat) : Bool := c != 10 && c != 13

/-- Go `enc.EncodeToString(bs)` for the given predefined encoding. -/
def b64Encode (v : B64Variant) (bs : Bytes) : List Nat :=
  b64EncodeCore v.isUrl v.isPadded bs

/-- Go `enc.DecodeString(s)` for the given predefined encoding; `none` stands for any
`CorruptInputError`. -/
def b64Decode (v : B64Variant) (s : List Nat) : Option Bytes :=
  b64DecodeCore v.isUrl v.isPadded (s.filter b64Keep)

/-! ## sebuf `BytesEncoding` dispatch -/

/-- The text form of a `bytes` field under sebuf `BytesEncoding` number `e`:
0 UNSPECIFIED and 1 BASE64 -> `StdEncoding`, 2 BASE64_RAW -> `RawStdEncoding`,
3 BASE64URL -> `URLEncoding`, 4 BASE64URL_RAW -> `RawURLEncoding`, 5 HEX -> hex;
any other number behaves as BASE64. -/
def sebufBytesEncode (e : Nat) (bs : Bytes) : List Nat :=
  match e with
  | 2 => b64Encode .rawStd bs
  | 3 => b64Encode .url bs
  | 4 => b64Encode .rawUrl bs
  | 5 => hexEncode bs
  | _ => b64Encode .std bs

/-- Inverse direction of `sebufBytesEncode`, with Go's decoders. -/
def sebufBytesDecode (e : Nat) (s : List Nat) : Option Bytes :=
  match e with
  | 2 => b64Decode .rawStd s
  | 3 => b64Decode .url s
  | 4 => b64Decode .rawUrl s
  | 5 => hexDecode s
  | _ => b64Decode .std s

end Sebuf
