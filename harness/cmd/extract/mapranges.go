package main

import (
	"fmt"
	"go/ast"
	"go/parser"
	"go/token"
	"os"
	"path/filepath"
	"sort"
	"strings"
)

func init() { register("MapRanges", extractMapRanges) }

// isMapType reports whether a type expression is syntactically a map.
func isMapType(e ast.Expr) bool {
	switch t := e.(type) {
	case *ast.MapType:
		return true
	case *ast.ParenExpr:
		return isMapType(t.X)
	}
	return false
}

type rangeSite struct {
	fn     string
	mapVar string
	sorted bool // the loop only collects keys/values into a slice that is sorted before use
	sortForm string // how that slice is sorted: the sort function, plus the comparator source for sort.Slice-style calls
	insert bool // the loop only inserts into another map / a set (order-insensitive)
}

func extractMapRanges() (string, error) {
	var sites []rangeSite
	dirs := []string{"internal/annotations", "internal/httpgen", "internal/clientgen", "internal/tscommon", "internal/tsclientgen",
		"internal/tsservergen", "internal/openapiv3", "cmd/protoc-gen-go-http", "cmd/protoc-gen-go-client", "cmd/protoc-gen-ts-client",
		"cmd/protoc-gen-ts-server", "cmd/protoc-gen-openapiv3"}
	for _, d := range dirs {
		ents, err := os.ReadDir(repo(d))
		if err != nil {
			return "", err
		}
		fset := token.NewFileSet()
		var files []*ast.File
		for _, e := range ents {
			n := e.Name()
			if !strings.HasSuffix(n, ".go") || strings.HasSuffix(n, "_test.go") {
				continue
			}
			f, err := parser.ParseFile(fset, repo(filepath.Join(d, n)), nil, 0)
			if err != nil {
				return "", err
			}
			files = append(files, f)
		}
		// names with a map type anywhere in the package: struct fields, params, vars, make(map..) targets
		mapNames := map[string]bool{}
		for _, f := range files {
			ast.Inspect(f, func(n ast.Node) bool {
				switch x := n.(type) {
				case *ast.Field:
					if isMapType(x.Type) {
						for _, nm := range x.Names {
							mapNames[nm.Name] = true
						}
					}
				case *ast.ValueSpec:
					if x.Type != nil && isMapType(x.Type) {
						for _, nm := range x.Names {
							mapNames[nm.Name] = true
						}
					}
					for i, v := range x.Values {
						if isMapExpr(v) && i < len(x.Names) {
							mapNames[x.Names[i].Name] = true
						}
					}
				case *ast.AssignStmt:
					for i, v := range x.Rhs {
						if isMapExpr(v) && i < len(x.Lhs) {
							mapNames[lastName(x.Lhs[i])] = true
						}
					}
				}
				return true
			})
		}
		for _, f := range files {
			for _, decl := range f.Decls {
				fd, ok := decl.(*ast.FuncDecl)
				if !ok || fd.Body == nil {
					continue
				}
				sortedSlices := map[string]bool{}
				sortForms := map[string]string{}
				ast.Inspect(fd.Body, func(n ast.Node) bool {
					if c, ok := n.(*ast.CallExpr); ok {
						fn := exprString(c.Fun)
						if (strings.HasPrefix(fn, "sort.") || strings.HasPrefix(fn, "slices.Sort")) && len(c.Args) > 0 {
							sortedSlices[lastName(c.Args[0])] = true
							form := fn
							if len(c.Args) > 1 {
								form += ":" + strings.Join(strings.Fields(exprString(c.Args[1])), " ")
							}
							sortForms[lastName(c.Args[0])] = form
						}
					}
					return true
				})
				ast.Inspect(fd.Body, func(n ast.Node) bool {
					rs, ok := n.(*ast.RangeStmt)
					if !ok {
						return true
					}
					nm := lastName(rs.X)
					if nm == "" || !mapNames[nm] {
						return true
					}
					site := rangeSite{fn: d + "." + fd.Name.Name, mapVar: nm}
					// classify the body
					onlyAppendSorted, onlyInsert := true, true
					for _, st := range rs.Body.List {
						as, ok := st.(*ast.AssignStmt)
						if !ok || len(as.Lhs) != 1 || len(as.Rhs) != 1 {
							onlyAppendSorted, onlyInsert = false, false
							break
						}
						if c, ok := as.Rhs[0].(*ast.CallExpr); ok && exprString(c.Fun) == "append" && sortedSlices[lastName(as.Lhs[0])] {
							onlyInsert = false
							site.sortForm = sortForms[lastName(as.Lhs[0])]
							continue
						}
						onlyAppendSorted = false
						if _, ok := as.Lhs[0].(*ast.IndexExpr); ok {
							continue
						}
						onlyInsert = false
					}
					site.sorted = onlyAppendSorted && len(rs.Body.List) > 0
					site.insert = onlyInsert && len(rs.Body.List) > 0
					sites = append(sites, site)
					return true
				})
			}
		}
	}
	sort.Slice(sites, func(a, b int) bool { return sites[a].fn+sites[a].mapVar < sites[b].fn+sites[b].mapVar })
	var b strings.Builder
	b.WriteString(header("MapRanges", "internal/*, cmd/* (every `range` over a map-typed variable in generator code)"))
	b.WriteString("/-- (function, map variable, keys collected into a slice that is sorted before use, body only inserts into a map, how the slice is sorted). -/\n")
	b.WriteString("def sites : List (String × String × Bool × Bool × String) := [\n")
	for i, s := range sites {
		sep := ","
		if i == len(sites)-1 {
			sep = ""
		}
		fmt.Fprintf(&b, "  (%s, %s, %v, %v, %s)%s\n", leanStr(s.fn), leanStr(s.mapVar), s.sorted, s.insert, leanStr(s.sortForm), sep)
	}
	b.WriteString("]\n")
	// the global unwrap table (internal/httpgen/unwrap.go): every write to and read of it, with the key expression
	// (a key held in a local variable is resolved through that variable's one definition in the function)
	tbl, err := unwrapTableSites()
	if err != nil {
		return "", err
	}
	b.WriteString("/-- the unwrap table of internal/httpgen/unwrap.go: (function, `write` / `read`, key expression). -/\n")
	b.WriteString("def unwrapTable : List (String × String × String) := [\n")
	for i, s := range tbl {
		sep := ","
		if i == len(tbl)-1 {
			sep = ""
		}
		fmt.Fprintf(&b, "  (%s, %s, %s)%s\n", leanStr(s[0]), leanStr(s[1]), leanStr(s[2]), sep)
	}
	b.WriteString("]\nend Sebuf.Gen.MapRanges\n")
	return b.String(), nil
}

func unwrapTableSites() ([][3]string, error) {
	fset := token.NewFileSet()
	f, err := parser.ParseFile(fset, repo("internal/httpgen/unwrap.go"), nil, 0)
	if err != nil {
		return nil, err
	}
	tableNames := map[string]bool{"UnwrapFields": true, "unwrapMessages": true, "globalUnwrapMap": true, "unwrapMap": true, "result": true}
	var out [][3]string
	for _, decl := range f.Decls {
		fd, ok := decl.(*ast.FuncDecl)
		if !ok || fd.Body == nil {
			continue
		}
		// single definitions of local variables
		defs := map[string]string{}
		ast.Inspect(fd.Body, func(n ast.Node) bool {
			if as, ok := n.(*ast.AssignStmt); ok && as.Tok == token.DEFINE && len(as.Lhs) == 1 && len(as.Rhs) == 1 {
				if id, ok := as.Lhs[0].(*ast.Ident); ok {
					if _, dup := defs[id.Name]; dup {
						defs[id.Name] = "<several definitions>"
					} else {
						defs[id.Name] = srcOf(as.Rhs[0])
					}
				}
			}
			return true
		})
		writes := map[*ast.IndexExpr]bool{}
		ast.Inspect(fd.Body, func(n ast.Node) bool {
			if as, ok := n.(*ast.AssignStmt); ok && as.Tok == token.ASSIGN {
				for _, l := range as.Lhs {
					if ix, ok := l.(*ast.IndexExpr); ok {
						writes[ix] = true
					}
				}
			}
			return true
		})
		ast.Inspect(fd.Body, func(n ast.Node) bool {
			ix, ok := n.(*ast.IndexExpr)
			if !ok || !tableNames[lastName(ix.X)] {
				return true
			}
			key := srcOf(ix.Index)
			if id, ok := ix.Index.(*ast.Ident); ok {
				if d, ok := defs[id.Name]; ok {
					key = d
				}
			}
			kind := "read"
			if writes[ix] {
				kind = "write"
			}
			out = append(out, [3]string{fd.Name.Name, kind, key})
			return true
		})
	}
	return out, nil
}

func isMapExpr(e ast.Expr) bool {
	switch x := e.(type) {
	case *ast.CallExpr:
		if exprString(x.Fun) == "make" && len(x.Args) > 0 {
			return isMapType(x.Args[0])
		}
	case *ast.CompositeLit:
		return x.Type != nil && isMapType(x.Type)
	}
	return false
}

func lastName(e ast.Expr) string {
	switch x := e.(type) {
	case *ast.Ident:
		return x.Name
	case *ast.SelectorExpr:
		return x.Sel.Name
	case *ast.StarExpr:
		return lastName(x.X)
	}
	return ""
}
