import Sebuf.Gen.OpenApiMain
/-! `Impl`: which OpenAPI documents the plugin emits and how they are named (cmd main), over the
facts regenerated from `cmd/protoc-gen-openapiv3/main.go`. -/
namespace Sebuf.OaEmit
open Sebuf.Gen

/-- output format constant for the value of the `format` parameter (absent ⇒ default). -/
def formatOf (param : Option String) : String :=
  match param with
  | none => OpenApiMain.defaultFormat
  | some p => match OpenApiMain.formatTable.find? (·.1 == p) with
    | some r => r.2
    | none => OpenApiMain.defaultFormat

def extOf (fmt : String) : String := if fmt == "FormatJSON" then OpenApiMain.jsonExt else OpenApiMain.defaultExt

def docName (param : Option String) (svc : String) : String := svc ++ ".openapi." ++ extOf (formatOf param)

def docNames (param : Option String) (services : List String) : List String := services.map (docName param)

end Sebuf.OaEmit
