/-
Identifier derivation: `snakeToUpperCamel` (what the generators use to name the Go field they
access) agrees with `goCamelCase` (what protoc-gen-go named the field) on plain snake_case
names `^[a-z]+(_[a-z]+)*$`, and `snakeToLowerCamel` agrees with protoc's JSON name there.
Outside that class they disagree; witnesses at the end.
-/
import Sebuf.Str

namespace Sebuf

/-! ## Plain snake_case names -/

/-- `needLetter` is true at the start and directly after an underscore. -/
def simpleSnakeAux : Bool → Str → Bool
  | needLetter, [] => !needLetter
  | needLetter, c :: r =>
    if isLowerAscii c then simpleSnakeAux false r
    else if c = '_' then (!needLetter && simpleSnakeAux true r)
    else false

/-- lower-case ASCII words separated by single underscores: `^[a-z]+(_[a-z]+)*$` -/
def simpleSnake (s : Str) : Bool := simpleSnakeAux true s

/-- `strings.Join(ws, "_")`. -/
def joinUnderscore : List Str → Str
  | [] => []
  | [w] => w
  | w :: w' :: ws => w ++ '_' :: joinUnderscore (w' :: ws)

/-- every word is non-empty and all lower-case ASCII -/
def LowerWords (ws : List Str) : Prop :=
  ∀ w ∈ ws, w ≠ [] ∧ ∀ c ∈ w, isLowerAscii c = true

/-! ## Character facts -/

theorem isLowerAscii_ne_underscore {c : Char} (h : isLowerAscii c = true) : c ≠ '_' := by
  intro hc; subst hc; revert h; decide

theorem isLowerAscii_ne_dot {c : Char} (h : isLowerAscii c = true) : c ≠ '.' := by
  intro hc; subst hc; revert h; decide

theorem isLowerAscii_not_digit {c : Char} (h : isLowerAscii c = true) : isDigitAscii c = false := by
  simp only [isLowerAscii, isDigitAscii, decide_eq_true_eq, decide_eq_false_iff_not,
    Char.le_def] at *
  have h1 : ('a' : Char).toNat = 97 := by decide
  have h2 : ('9' : Char).toNat = 57 := by decide
  have := h.1
  intro h'
  have := h'.2
  simp only [UInt32.le_iff_toNat_le] at *
  simp only [← Char.toNat_val] at *
  omega

/-! ## `joinUnderscore` -/

theorem joinUnderscore_cons_cons (c : Char) (w : Str) (ws : List Str) :
    joinUnderscore ((c :: w) :: ws) = c :: joinUnderscore (w :: ws) := by
  cases ws <;> simp [joinUnderscore]

theorem joinUnderscore_cons (w : Str) (ws : List Str) (h : ws ≠ []) :
    joinUnderscore (w :: ws) = w ++ '_' :: joinUnderscore ws := by
  cases ws with
  | nil => exact absurd rfl h
  | cons w' ws => simp [joinUnderscore]

theorem nextIsLower_joinUnderscore (ws : List Str) (hne : ws ≠ []) (h : LowerWords ws) :
    nextIsLower (joinUnderscore ws) = true := by
  cases ws with
  | nil => exact absurd rfl hne
  | cons w ws =>
    have hw := h w (by simp)
    cases w with
    | nil => exact absurd rfl hw.1
    | cons c w =>
      rw [joinUnderscore_cons_cons]
      exact hw.2 c (by simp)

/-! ## Characterisation of `simpleSnake` -/

theorem simpleSnakeAux_words (s : Str) :
    (simpleSnakeAux true s = true →
      ∃ w ws, w ≠ [] ∧ (∀ c ∈ w, isLowerAscii c = true) ∧ LowerWords ws ∧
        s = joinUnderscore (w :: ws)) ∧
    (simpleSnakeAux false s = true →
      ∃ w ws, (∀ c ∈ w, isLowerAscii c = true) ∧ LowerWords ws ∧
        s = joinUnderscore (w :: ws)) := by
  induction s with
  | nil =>
    refine ⟨by simp [simpleSnakeAux], fun _ => ⟨[], [], by simp, ?_, by simp [joinUnderscore]⟩⟩
    intro w hw; simp at hw
  | cons c r ih =>
    by_cases hl : isLowerAscii c = true
    · have step : simpleSnakeAux false r = true →
          ∃ w ws, w ≠ [] ∧ (∀ c ∈ w, isLowerAscii c = true) ∧ LowerWords ws ∧
            c :: r = joinUnderscore (w :: ws) := by
        intro h
        obtain ⟨w, ws, hw, hws, hr⟩ := ih.2 h
        refine ⟨c :: w, ws, by simp, ?_, hws, ?_⟩
        · intro d hd
          rcases List.mem_cons.1 hd with rfl | hd
          · exact hl
          · exact hw d hd
        · rw [joinUnderscore_cons_cons, hr]
      constructor
      · intro h
        simp only [simpleSnakeAux, hl, if_true] at h
        exact step h
      · intro h
        simp only [simpleSnakeAux, hl, if_true] at h
        obtain ⟨w, ws, _, hw, hws, hr⟩ := step h
        exact ⟨w, ws, hw, hws, hr⟩
    · constructor
      · intro h
        simp [simpleSnakeAux, hl] at h
      · intro h
        by_cases hu : c = '_'
        · subst hu
          simp [simpleSnakeAux, hl] at h
          obtain ⟨w, ws, hne, hw, hws, hr⟩ := ih.1 h
          refine ⟨[], w :: ws, by simp, ?_, ?_⟩
          · intro v hv
            rcases List.mem_cons.1 hv with rfl | hv
            · exact ⟨hne, hw⟩
            · exact hws v hv
          · simp [joinUnderscore, hr]
        · simp [simpleSnakeAux, hl, hu] at h

theorem simpleSnakeAux_false_append (w t : Str) (hw : ∀ c ∈ w, isLowerAscii c = true) :
    simpleSnakeAux false (w ++ t) = simpleSnakeAux false t := by
  induction w with
  | nil => rfl
  | cons c w ih =>
    have hc := hw c (by simp)
    simp only [List.cons_append, simpleSnakeAux, hc, if_true]
    exact ih (fun d hd => hw d (by simp [hd]))

theorem simpleSnakeAux_word_append (b : Bool) (w t : Str) (hne : w ≠ [])
    (hw : ∀ c ∈ w, isLowerAscii c = true) :
    simpleSnakeAux b (w ++ t) = simpleSnakeAux false t := by
  cases w with
  | nil => exact absurd rfl hne
  | cons c w =>
    have hc := hw c (by simp)
    simp only [List.cons_append, simpleSnakeAux, hc, if_true]
    exact simpleSnakeAux_false_append w t (fun d hd => hw d (by simp [hd]))

theorem simpleSnakeAux_joinUnderscore (ws : List Str) (hne : ws ≠ []) (h : LowerWords ws) :
    simpleSnakeAux true (joinUnderscore ws) = true := by
  induction ws with
  | nil => exact absurd rfl hne
  | cons w ws ih =>
    have hw := h w (by simp)
    cases ws with
    | nil =>
      have := simpleSnakeAux_word_append true w [] hw.1 hw.2
      simpa [joinUnderscore, simpleSnakeAux] using this
    | cons w' ws =>
      have ih' := ih (by simp) (fun v hv => h v (by simp [hv]))
      have hl : isLowerAscii '_' = false := by decide
      simp only [joinUnderscore] at ih' ⊢
      rw [simpleSnakeAux_word_append true w _ hw.1 hw.2]
      simp only [simpleSnakeAux, hl]
      simpa using ih'

theorem simpleSnake_iff_words (s : Str) :
    simpleSnake s = true ↔
      ∃ ws : List Str, ws ≠ [] ∧ (∀ w ∈ ws, w ≠ [] ∧ ∀ c ∈ w, isLowerAscii c = true) ∧
        s = joinUnderscore ws := by
  constructor
  · intro h
    obtain ⟨w, ws, hne, hw, hws, hs⟩ := (simpleSnakeAux_words s).1 h
    refine ⟨w :: ws, by simp, ?_, hs⟩
    intro v hv
    rcases List.mem_cons.1 hv with rfl | hv
    · exact ⟨hne, hw⟩
    · exact hws v hv
  · rintro ⟨ws, hne, hws, rfl⟩
    exact simpleSnakeAux_joinUnderscore ws hne hws

/-! ## `splitOnChar` on joined words -/

theorem splitOnChar_no_sep (sep : Char) (w : Str) (hw : ∀ c ∈ w, c ≠ sep) :
    splitOnChar sep w = [w] := by
  induction w with
  | nil => rfl
  | cons c w ih =>
    have hc := hw c (by simp)
    simp [splitOnChar, hc, ih (fun d hd => hw d (by simp [hd]))]

theorem splitOnChar_append_sep (sep : Char) (w t : Str) (hw : ∀ c ∈ w, c ≠ sep) :
    splitOnChar sep (w ++ sep :: t) = w :: splitOnChar sep t := by
  induction w with
  | nil => simp [splitOnChar]
  | cons c w ih =>
    have hc := hw c (by simp)
    simp [splitOnChar, hc, ih (fun d hd => hw d (by simp [hd]))]

theorem splitOnChar_joinUnderscore (ws : List Str) (hne : ws ≠ [])
    (h : ∀ w ∈ ws, ∀ c ∈ w, c ≠ '_') : splitOnChar '_' (joinUnderscore ws) = ws := by
  induction ws with
  | nil => exact absurd rfl hne
  | cons w ws ih =>
    cases ws with
    | nil => simpa [joinUnderscore] using splitOnChar_no_sep '_' w (h w (by simp))
    | cons w' ws =>
      have ih' := ih (by simp) (fun v hv => h v (by simp [hv]))
      simp only [joinUnderscore] at ih' ⊢
      rw [splitOnChar_append_sep '_' w _ (h w (by simp)), ih']

theorem LowerWords.no_underscore {ws : List Str} (h : LowerWords ws) :
    ∀ w ∈ ws, ∀ c ∈ w, c ≠ '_' :=
  fun w hw c hc => isLowerAscii_ne_underscore ((h w hw).2 c hc)

/-! ## `goCamelCase` on joined words -/

theorem goCamelAux_lower (prev : Option Char) (c : Char) (rest : Str)
    (hc : isLowerAscii c = true) :
    goCamelAux prev false (c :: rest) = toUpperAscii c :: goCamelAux (some c) true rest := by
  have h1 := isLowerAscii_ne_underscore hc
  have h2 := isLowerAscii_ne_dot hc
  have h3 := isLowerAscii_not_digit hc
  simp [goCamelAux, h1, h2, h3]

theorem goCamelAux_run_end (p : Char) (w : Str) (hw : ∀ c ∈ w, isLowerAscii c = true) :
    goCamelAux (some p) true w = w := by
  induction w generalizing p with
  | nil => rfl
  | cons c w ih =>
    have hc := hw c (by simp)
    simp [goCamelAux, hc, ih c (fun d hd => hw d (by simp [hd]))]

theorem goCamelAux_run_underscore (p : Char) (w t : Str) (hp : isLowerAscii p = true)
    (hw : ∀ c ∈ w, isLowerAscii c = true) (ht : nextIsLower t = true) :
    goCamelAux (some p) true (w ++ '_' :: t) = w ++ goCamelAux (some '_') false t := by
  induction w generalizing p with
  | nil =>
    have hl : isLowerAscii '_' = false := by decide
    have hd := isLowerAscii_ne_dot hp
    simp [goCamelAux, hl, hd, ht]
  | cons c w ih =>
    have hc := hw c (by simp)
    simp [goCamelAux, hc, ih c hc (fun d hd => hw d (by simp [hd]))]

theorem goCamelAux_joinUnderscore (prev : Option Char) (ws : List Str) (hne : ws ≠ [])
    (h : LowerWords ws) :
    goCamelAux prev false (joinUnderscore ws) = (ws.map upperFirst).flatten := by
  induction ws generalizing prev with
  | nil => exact absurd rfl hne
  | cons w ws ih =>
    have hw := h w (by simp)
    cases w with
    | nil => exact absurd rfl hw.1
    | cons c w =>
      have hc := hw.2 c (by simp)
      have hw' : ∀ d ∈ w, isLowerAscii d = true := fun d hd => hw.2 d (by simp [hd])
      cases ws with
      | nil =>
        simp [joinUnderscore, upperFirst, goCamelAux_lower _ _ _ hc, goCamelAux_run_end c w hw']
      | cons w' ws =>
        have hrest : LowerWords (w' :: ws) := fun v hv => h v (by simp [hv])
        have ih' := ih (some '_') (by simp) hrest
        have hnext := nextIsLower_joinUnderscore (w' :: ws) (by simp) hrest
        rw [joinUnderscore_cons _ _ (by simp), List.cons_append, goCamelAux_lower _ _ _ hc,
          goCamelAux_run_underscore c w _ hc hw' hnext, ih']
        simp [upperFirst]

/-! ## `jsonName` on joined words -/

theorem jsonNameAux_false_append (w t : Str) (hw : ∀ c ∈ w, c ≠ '_') :
    jsonNameAux false (w ++ t) = w ++ jsonNameAux false t := by
  induction w with
  | nil => rfl
  | cons c w ih =>
    have hc := hw c (by simp)
    simp [jsonNameAux, hc, ih (fun d hd => hw d (by simp [hd]))]

theorem jsonNameAux_true_joinUnderscore (ws : List Str) (hne : ws ≠ []) (h : LowerWords ws) :
    jsonNameAux true (joinUnderscore ws) = (ws.map upperFirst).flatten := by
  induction ws with
  | nil => exact absurd rfl hne
  | cons w ws ih =>
    have hw := h w (by simp)
    have hnu := h.no_underscore w (by simp)
    cases w with
    | nil => exact absurd rfl hw.1
    | cons c w =>
      have hc := hnu c (by simp)
      have hw' : ∀ d ∈ w, d ≠ '_' := fun d hd => hnu d (by simp [hd])
      cases ws with
      | nil =>
        have := jsonNameAux_false_append w [] hw'
        simp only [List.append_nil] at this
        simp [joinUnderscore, upperFirst, jsonNameAux, hc, this]
      | cons w' ws =>
        have ih' := ih (by simp) (fun v hv => h v (by simp [hv]))
        rw [joinUnderscore_cons _ _ (by simp), List.cons_append]
        simp [jsonNameAux, hc, jsonNameAux_false_append w _ hw', ih', upperFirst]

/-! ## Main theorems -/

theorem snakeToUpperCamel_joinUnderscore (ws : List Str) (hne : ws ≠ []) (h : LowerWords ws) :
    snakeToUpperCamel (joinUnderscore ws) = (ws.map upperFirst).flatten := by
  rw [snakeToUpperCamel, splitOnChar_joinUnderscore ws hne h.no_underscore]

theorem snakeToUpperCamel_eq_goCamelCase (s : Str) (h : simpleSnake s = true) :
    snakeToUpperCamel s = goCamelCase s := by
  obtain ⟨ws, hne, hws, rfl⟩ := (simpleSnake_iff_words s).1 h
  rw [snakeToUpperCamel_joinUnderscore ws hne hws, goCamelCase,
    goCamelAux_joinUnderscore none ws hne hws]

theorem snakeToLowerCamel_eq_jsonName (s : Str) (h : simpleSnake s = true) :
    snakeToLowerCamel s = jsonName s := by
  obtain ⟨ws, hne, hws, rfl⟩ := (simpleSnake_iff_words s).1 h
  have hws' : LowerWords ws := hws
  rw [snakeToLowerCamel, splitOnChar_joinUnderscore ws hne hws'.no_underscore, jsonName]
  cases ws with
  | nil => exact absurd rfl hne
  | cons w ws =>
    have hw := hws'.no_underscore w (by simp)
    cases ws with
    | nil =>
      have := jsonNameAux_false_append w [] hw
      simp only [List.append_nil] at this
      simp [joinUnderscore, this, jsonNameAux]
    | cons w' ws =>
      have hrest : LowerWords (w' :: ws) := fun v hv => hws' v (by simp [hv])
      rw [joinUnderscore_cons _ _ (by simp), jsonNameAux_false_append w _ hw]
      simp only [jsonNameAux, if_true]
      rw [jsonNameAux_true_joinUnderscore _ (by simp) hrest]

/-! ## The hypothesis matters -/

theorem ident_disagree_digit :
    snakeToUpperCamel "with2digits".toList ≠ goCamelCase "with2digits".toList := by decide

theorem ident_disagree_digit_after_underscore :
    snakeToUpperCamel "a_1b".toList ≠ goCamelCase "a_1b".toList := by decide

theorem ident_disagree_double_underscore :
    snakeToUpperCamel "a__b".toList ≠ goCamelCase "a__b".toList := by decide

theorem ident_disagree_leading_underscore :
    snakeToUpperCamel "_foo".toList ≠ goCamelCase "_foo".toList := by decide

theorem ident_disagree_trailing_underscore :
    snakeToUpperCamel "a_".toList ≠ goCamelCase "a_".toList := by decide

example : simpleSnake "user_id".toList = true := by decide
example : simpleSnake "a".toList = true := by decide
example : simpleSnake "page_size_max".toList = true := by decide
example : simpleSnake "".toList = false := by decide
example : simpleSnake "with2digits".toList = false := by decide
example : simpleSnake "a_1b".toList = false := by decide
example : simpleSnake "a__b".toList = false := by decide
example : simpleSnake "_foo".toList = false := by decide
example : simpleSnake "a_".toList = false := by decide
example : simpleSnake "userId".toList = false := by decide
example : snakeToUpperCamel "user_id".toList = "UserId".toList := by decide
example : goCamelCase "user_id".toList = "UserId".toList := by decide
example : goCamelCase "with2digits".toList = "With2Digits".toList := by decide
example : snakeToUpperCamel "with2digits".toList = "With2digits".toList := by decide

end Sebuf
