import Sebuf.DriverSchema
import Sebuf.Build
namespace Sebuf.Driver
open Lean (Json)

def opBuildDefects (j : Json) : Json :=
  let rq := requestOf (j.getObjValD "rq")
  let strs (l : List String) : Json := Json.arr (l.eraseDups.map Json.str).toArray
  Json.mkObj [("go-http", strs (Build.goDefects rq "go-http")), ("go-client", strs (Build.goDefects rq "go-client")),
              ("both", strs (Build.goDefects rq "both")), ("ts-server", strs (Build.tsServerDefects rq)), ("ts-client", strs [])]

end Sebuf.Driver
