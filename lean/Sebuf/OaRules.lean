import Sebuf.JsonSchema
import Sebuf.Dec
/-!
# buf.validate field rules and the OpenAPI constraints published for them (property C19)

Two layers.

* `Spec.satisfies kind card rules v` is protovalidate's documented meaning of the rule subset of
  the property: string `min_len` / `max_len` (Unicode code points = `List Char` length), `in`,
  `const`; numeric `gt` / `gte` / `lt` / `lte` / `in` / `const`; repeated `min_items` /
  `max_items` / `unique`; map `min_pairs` / `max_pairs`. `pattern` is carried but not evaluated
  (neither here nor by `Schema.valid`: an uninterpreted predicate shared by both sides).
  Element level rules (`repeated.items`, `map.values`) are outside the rule list of the property
  and are not modelled.
* `Impl.fieldSchema kind card int64Number rules` is the schema object
  `internal/openapiv3/types.go` (`convertField`, `convertScalarField`, `convertMapField`) and
  `validation.go` (`extractValidationConstraints` and the `apply*Constraints` helpers) build for
  the field, AS THE PARSED DOCUMENT SHOWS IT: after libopenapi rendered it and a YAML reader
  resolved the untagged scalars. Transcribed behaviours (each checked against the real plugin by
  the correspondence run of `harness/props/c19.go`):
  - which rule group each field kind consults (`getter`): all five 32-bit integer kinds read the
    `int32` group, all five 64-bit kinds the `int64` group;
  - `gt` / `lt` are stored in `base.DynamicValue[bool, float64]{N: 1, B: x}` (since commit
    de811c7; before it `N` was left `0` and the unset boolean side was rendered:
    `exclusiveMinimum: false`, see `Impl.numericKwsBeforeDe811c7`): the numeric
    `exclusiveMinimum` / `exclusiveMaximum` of JSON Schema 2020-12, same conversion as `gte` / `lte`;
  - 64-bit kinds are `type: string` unless `int64_encoding = NUMBER`; the numeric keywords are
    attached all the same;
  - numeric `const` / `in` values are untagged YAML scalars; STRING ones are tagged `!!str`
    (`stringLit`; before that fix they were untagged too, re-typed by the reader — `yamlScalar` —
    and `string.const = ""` made the renderer dereference a nil document: `crashesBeforeFix`);
  - `*int64` keyword values (`minLength`, `maxItems`, ...) are `int64(uint64)` conversions and
    are dropped by the renderer when they are `0`;
  - numeric bounds pass through `float64(...)`; in the `float` group that is `float64(float32)`,
    whose shortest decimal differs from the float32's own (`NumB.wide`);
  - a repeated field's item schema receives the array keywords too; a map's value schema is
    built from the synthetic entry field (no options: no `int64_encoding`, no rules).

Numbers are `JNum`s: exact integers, or canonical finite decimal tokens for non-integers (the
harness canonicalises every number of the document and of the probe values the same way, so
equal decimals have equal tokens). `Dcm` compares them exactly. Go's float printing
(`strconv`, `%g`) is a library contract: the harness computes `NumB.wide` with it.
-/
namespace Sebuf.OaRules
open Sebuf.Schema

/-! ### exact finite decimals -/

/-- `m / 10^k`. -/
structure Dcm where
  m : Int
  k : Nat
deriving DecidableEq, Repr

namespace Dcm

def le (a b : Dcm) : Bool := decide (a.m * (10 : Int) ^ b.k ≤ b.m * (10 : Int) ^ a.k)
def lt (a b : Dcm) : Bool := decide (a.m * (10 : Int) ^ b.k < b.m * (10 : Int) ^ a.k)

/-- split at the first character satisfying `p` (which is dropped). -/
def splitAt (p : Char → Bool) : Str → Str × Option Str
  | [] => ([], none)
  | c :: r => if p c then ([], some r) else
      let q := splitAt p r
      (c :: q.1, q.2)

def digitsOrZero : Str → Option Nat
  | [] => some 0
  | s => parseDigits s

/-- mantissa `[0-9]*(\.[0-9]*)?` with at least one digit: value and number of fraction digits. -/
def parseMantissa (s : Str) : Option (Nat × Nat) :=
  let q := splitAt (· == '.') s
  let frac := q.2.getD []
  if q.1 = [] ∧ frac = [] then none
  else match digitsOrZero q.1, digitsOrZero frac with
    | some a, some b => some (a * 10 ^ frac.length + b, frac.length)
    | _, _ => none

def signOf : Str → Bool × Str
  | '-' :: r => (true, r)
  | '+' :: r => (false, r)
  | s => (false, s)

/-- `[-+]?(\.[0-9]+|[0-9]+(\.[0-9]*)?)([eE][-+]?[0-9]+)?` (go-yaml's float pattern, which also
covers the decimal integers), as an exact decimal. -/
def parse (s : Str) : Option Dcm :=
  let sg := signOf s
  let q := splitAt (fun c => c == 'e' || c == 'E') sg.2
  match parseMantissa q.1 with
  | none => none
  | some (m, k) =>
    let mi : Int := if sg.1 then -(Int.ofNat m) else Int.ofNat m
    match q.2 with
    | none => some ⟨mi, k⟩
    | some es =>
      match parseSigned es with
      | none => none
      | some e =>
        if (k : Int) ≤ e then some ⟨mi * (10 : Int) ^ (e - k).toNat, 0⟩
        else some ⟨mi, ((k : Int) - e).toNat⟩

/-- strip trailing zeros of the fraction (`fuel` = number of fraction digits). -/
def normAux : Nat → Int → Nat → Dcm
  | 0, m, k => ⟨m, k⟩
  | fuel + 1, m, k =>
    match k with
    | 0 => ⟨m, 0⟩
    | k' + 1 => if m % 10 = 0 then normAux fuel (m / 10) k' else ⟨m, k' + 1⟩

def norm (d : Dcm) : Dcm := normAux d.k d.m d.k

def ofJNum : JNum → Option Dcm
  | .int i => some ⟨i, 0⟩
  | .float tok => parse tok

def padLeft (n : Nat) (s : Str) : Str := List.replicate (n - s.length) '0' ++ s

/-- canonical number: an exact integer, or the plain decimal text `-?d+.d+` without trailing
zeros. -/
def toJNum (d : Dcm) : JNum :=
  let n := norm d
  match n.k with
  | 0 => .int n.m
  | k =>
    let digits := padLeft (k + 1) (natToDec n.m.natAbs)
    let ip := digits.take (digits.length - k)
    let fp := digits.drop (digits.length - k)
    .float ((if n.m < 0 then ['-'] else []) ++ ip ++ '.' :: fp)

end Dcm

def dle (a b : JNum) : Bool :=
  match Dcm.ofJNum a, Dcm.ofJNum b with
  | some x, some y => x.le y
  | _, _ => false

def dlt (a b : JNum) : Bool :=
  match Dcm.ofJNum a, Dcm.ofJNum b with
  | some x, some y => x.lt y
  | _, _ => false

/-! ### field kinds, rules, values -/

/-- the numeric field kinds; also the names of the numeric rule groups of `buf.validate.FieldRules`. -/
inductive NKind
  | int32 | sint32 | sfixed32 | uint32 | fixed32
  | int64 | sint64 | sfixed64 | uint64 | fixed64
  | float | double
deriving DecidableEq, Repr

def NKind.all : List NKind :=
  [.int32, .sint32, .sfixed32, .uint32, .fixed32, .int64, .sint64, .sfixed64, .uint64, .fixed64, .float, .double]

def NKind.is64 : NKind → Bool
  | .int64 | .sint64 | .sfixed64 | .uint64 | .fixed64 => true
  | _ => false

def NKind.isFloat : NKind → Bool
  | .float | .double => true
  | _ => false

def NKind.name : NKind → String
  | .int32 => "int32" | .sint32 => "sint32" | .sfixed32 => "sfixed32" | .uint32 => "uint32"
  | .fixed32 => "fixed32" | .int64 => "int64" | .sint64 => "sint64" | .sfixed64 => "sfixed64"
  | .uint64 => "uint64" | .fixed64 => "fixed64" | .float => "float" | .double => "double"

inductive FKind
  | num (k : NKind)
  | string
  | bool
deriving DecidableEq, Repr

inductive FCard
  | single | optional | repeated | map
deriving DecidableEq, Repr

def FCard.isScalar : FCard → Bool
  | .single | .optional => true
  | _ => false

/-- the well-known string formats of the property. -/
inductive Fmt
  | email | uuid | uri | hostname | ip | ipv4 | ipv6
deriving DecidableEq, Repr

def Fmt.all : List Fmt := [.email, .uuid, .uri, .hostname, .ip, .ipv4, .ipv6]

/-- a numeric bound: the declared value and the shortest decimal of `float64(value)` as Go
prints it (equal to `v` except in the `float` group; computed by the harness). -/
structure NumB where
  v : JNum
  wide : JNum
deriving DecidableEq, Repr

structure FieldRules where
  required : Bool := false
  minLen : Option Nat := none
  maxLen : Option Nat := none
  pattern : Option Str := none
  strIn : List Str := []
  strConst : Option Str := none
  format : Option Fmt := none
  /-- the rule group the numeric rules are declared under (protovalidate only accepts the
  group of the field's own kind). -/
  group : NKind := .int32
  gt : Option NumB := none
  gte : Option NumB := none
  lt : Option NumB := none
  lte : Option NumB := none
  numIn : List JNum := []
  numConst : Option JNum := none
  minItems : Option Nat := none
  maxItems : Option Nat := none
  unique : Bool := false
  minPairs : Option Nat := none
  maxPairs : Option Nat := none
deriving Repr

inductive Scalar
  | num (n : JNum)
  | str (s : Str)
  | bool (b : Bool)
deriving DecidableEq, Repr

/-- a field value. Map keys are strings and pairwise distinct (a proto map). -/
inductive V
  | one (s : Scalar)
  | list (l : List Scalar)
  | map (kvs : List (Str × Scalar))
deriving Repr

/-! ### Spec: what the rules accept -/

namespace Spec

def optLe (lo : Option Nat) (n : Nat) : Bool := match lo with | none => true | some b => decide (b ≤ n)
def optGe (hi : Option Nat) (n : Nat) : Bool := match hi with | none => true | some b => decide (n ≤ b)

def strOk (r : FieldRules) (s : Str) : Bool :=
  optLe r.minLen s.length && optGe r.maxLen s.length &&
  (r.strIn.isEmpty || r.strIn.any (· == s)) &&
  (match r.strConst with | none => true | some c => c == s)

def optB (o : Option NumB) (f : JNum → Bool) : Bool := match o with | none => true | some b => f b.v

def numOk (r : FieldRules) (n : JNum) : Bool :=
  optB r.gt (fun b => dlt b n) && optB r.gte (fun b => dle b n) &&
  optB r.lt (fun b => dlt n b) && optB r.lte (fun b => dle n b) &&
  (r.numIn.isEmpty || r.numIn.any (· == n)) &&
  (match r.numConst with | none => true | some c => c == n)

def scalarOk (k : FKind) (r : FieldRules) : Scalar → Bool
  | .str s => (match k with | .string => strOk r s | _ => false)
  | .num n => (match k with | .num _ => numOk r n | _ => false)
  | .bool _ => (match k with | .bool => true | _ => false)

/-- pairwise different elements (`repeated.unique`). -/
def distinct : List Scalar → Bool
  | [] => true
  | x :: xs => !(xs.any (x == ·)) && distinct xs

def satisfies (k : FKind) (c : FCard) (r : FieldRules) : V → Bool
  | .one s => c.isScalar && scalarOk k r s
  | .list l => c == .repeated && optLe r.minItems l.length && optGe r.maxItems l.length &&
      (!r.unique || distinct l)
  | .map kvs => c == .map && optLe r.minPairs kvs.length && optGe r.maxPairs kvs.length

/-- the format name the property wants published for a well-known string rule. -/
def formatName : Fmt → String
  | .email => "email" | .uuid => "uuid" | .uri => "uri" | .hostname => "hostname"
  | .ip => "ip" | .ipv4 => "ipv4" | .ipv6 => "ipv6"

end Spec

/-! ### the JSON form of a value -/

def jsonScalar (k : FKind) (int64Number : Bool) : Scalar → Json
  | .num (.int i) =>
    (match k with
     | .num nk => if nk.is64 && !int64Number then .str (intToDec i) else .num (.int i)
     | _ => .num (.int i))
  | .num f => .num f
  | .str s => .str s
  | .bool b => .bool b

def jsonForm (k : FKind) (int64Number : Bool) : V → Json
  | .one s => jsonScalar k int64Number s
  | .list l => .arr (l.map (jsonScalar k int64Number))
  | .map kvs => .obj (kvs.map fun p => (p.1, jsonScalar k false p.2))

/-! ### YAML plain scalars (what a reader makes of an untagged scalar node) -/

def isAsciiLetter (c : Char) : Bool := isUpperAscii c || isLowerAscii c

def nullWords : List Str := [[], ['~'], ['n', 'u', 'l', 'l'], ['N', 'u', 'l', 'l'], ['N', 'U', 'L', 'L']]
def trueWords : List Str := [['t', 'r', 'u', 'e'], ['T', 'r', 'u', 'e'], ['T', 'R', 'U', 'E']]
def falseWords : List Str := [['f', 'a', 'l', 's', 'e'], ['F', 'a', 'l', 's', 'e'], ['F', 'A', 'L', 'S', 'E']]

/-- tag resolution of a plain scalar (YAML 1.2 core schema as go-yaml implements it) on the
domain the harness draws from: null / boolean words, decimal integers, decimal floats; anything
else is a string. Outside that domain (base prefixes, `_` separators, leading zeros,
timestamps, `.inf`, `.nan`) readers disagree and the harness does not go there. -/
def yamlResolve (s : Str) : Json :=
  if nullWords.contains s then .null
  else if trueWords.contains s then .bool true
  else if falseWords.contains s then .bool false
  else match Dcm.parse s with
    | some d => .num (Dcm.toJNum d)
    | none => .str s

/-- characters after which the emitter's plain style is certain to be kept or irrelevant. -/
def plainChar (c : Char) : Bool :=
  isAsciiLetter c || isDigitAscii c || c == '.' || c == '+' || c == '-' || c == '~' || c == '_'

def hasPrefix (p s : Str) : Bool := (stripPrefix p s).isSome

/-- what the document shows for `&yaml.Node{Kind: ScalarNode, Value: v}`: the emitter writes `v`
plain unless its analysis forces quotes; every value that could resolve to a non-string consists
of `plainChar`s only, and of those the emitter quotes just `-`, `---…` and `...…`. -/
def yamlScalar (v : Str) : Json :=
  if v.all plainChar && !(v == ['-'] || hasPrefix ['-', '-', '-'] v || hasPrefix ['.', '.', '.'] v)
  then yamlResolve v else .str v

/-- a sufficient syntactic condition for "stays a string": starts with an ASCII letter and is
not a YAML 1.1 / 1.2 null or boolean word. -/
def reservedWords : List Str :=
  nullWords ++ trueWords ++ falseWords ++
  ["y", "Y", "n", "N", "yes", "Yes", "YES", "no", "No", "NO", "on", "On", "ON", "off", "Off", "OFF"].map String.toList

def safeWord (v : Str) : Bool :=
  (match v with | c :: _ => isAsciiLetter c | [] => false) && !(reservedWords.contains v)

/-! ### Impl: the schema object the generator publishes -/

namespace Impl

def S (s : String) : Json := .str s.toList

def optKw (k : Str) : Option Json → List (Str × Json)
  | none => []
  | some v => [(k, v)]

/-- `int64(x)` of a `uint64`. -/
def toInt64 (n : Nat) : Int := if n < 2 ^ 63 then (n : Int) else (n : Int) - 2 ^ 64

/-- a `*int64` keyword: libopenapi's renderer drops the value `0`. -/
def countKw (k : Str) : Option Nat → List (Str × Json)
  | none => []
  | some n => if toInt64 n = 0 then [] else [(k, .num (.int (toInt64 n)))]

/-- `float64(x)` of an integer: exact up to 2^53, round-to-nearest-even beyond. -/
def toF64 (i : Int) : Int :=
  let a := i.natAbs
  if a ≤ 2 ^ 53 then i
  else
    let e := Nat.log2 a - 52
    let q := a / 2 ^ e
    let r := a % 2 ^ e
    let half := 2 ^ (e - 1)
    let q' := if r > half || (r == half && q % 2 == 1) then q + 1 else q
    if i < 0 then -((q' * 2 ^ e : Nat) : Int) else ((q' * 2 ^ e : Nat) : Int)

/-- which rule group `extractValidationConstraints` reads for a field of this kind: the kind's own
(since /repo 3ffb0a3: one `apply<Kind>Constraints` per integer kind). -/
def getter : NKind → NKind := id

/-- before /repo 3ffb0a3: every 32-bit integer kind read the `int32` group, every 64-bit one the
`int64` group — groups protovalidate refuses on those fields. Regression witness only. -/
def getterBefore3ffb0a3 : NKind → NKind
  | .int32 | .sint32 | .sfixed32 | .uint32 | .fixed32 => .int32
  | .int64 | .sint64 | .sfixed64 | .uint64 | .fixed64 => .int64
  | .float => .float
  | .double => .double

def boundJson (g : NKind) (b : NumB) : Json :=
  match g with
  | .float => .num b.wide
  | .double => .num b.v
  | _ => (match b.v with | .int i => .num (.int (toF64 i)) | f => .num f)

def int64Warning : Json := S "Warning: Values > 2^53 may lose precision in JavaScript"

/-- `convertScalarField` before the rules are looked at: the keywords a validator reads. -/
def baseCore (k : FKind) (int64Number : Bool) : List (Str × Json) :=
  match k with
  | .string => [(K.type, .str T.string)]
  | .bool => [(K.type, .str T.boolean)]
  | .num nk =>
    match nk with
    | .int32 | .sint32 | .sfixed32 => [(K.type, .str T.integer)]
    | .uint32 | .fixed32 => [(K.type, .str T.integer), (K.minimum, .num (.int 0))]
    | .int64 | .sint64 | .sfixed64 =>
      if int64Number then [(K.type, .str T.integer)] else [(K.type, .str T.string)]
    | .uint64 | .fixed64 =>
      if int64Number then [(K.type, .str T.integer), (K.minimum, .num (.int 0))]
      else [(K.type, .str T.string)]
    | .float | .double => [(K.type, .str T.number)]

/-- ... and its annotations (`format`, the NUMBER precision warning). -/
def baseAnn (k : FKind) (int64Number : Bool) : List (Str × Json) :=
  match k with
  | .string | .bool => []
  | .num nk =>
    match nk with
    | .int32 | .sint32 | .sfixed32 | .uint32 | .fixed32 => [(K.format, S "int32")]
    | .int64 | .sint64 | .sfixed64 =>
      if int64Number then [(K.format, S "int64"), (K.description, int64Warning)] else [(K.format, S "int64")]
    | .uint64 | .fixed64 =>
      if int64Number then [(K.format, S "uint64"), (K.description, int64Warning)] else [(K.format, S "uint64")]
    | .float => [(K.format, S "float")]
    | .double => [(K.format, S "double")]

def base (k : FKind) (int64Number : Bool) : List (Str × Json) := baseAnn k int64Number ++ baseCore k int64Number

/-- `applyInt32Constraints` / `applyInt64Constraints` / `applyFloatConstraints` /
`applyDoubleConstraints` on the group `g`. -/
def numericKws (g : NKind) (r : FieldRules) : List (Str × Json) :=
  optKw K.minimum (r.gte.map (boundJson g)) ++
  optKw K.exclusiveMinimum (r.gt.map (boundJson g)) ++
  optKw K.maximum (r.lte.map (boundJson g)) ++
  optKw K.exclusiveMaximum (r.lt.map (boundJson g)) ++
  optKw K.const (r.numConst.map Json.num) ++
  (if r.numIn.isEmpty then [] else [(K.enum, Json.arr (r.numIn.map Json.num))])

/-- what the same helpers published before commit de811c7 (`DynamicValue{B: x}` with `N = 0`
renders its boolean side): kept as a regression witness, not used by `fieldSchema`. -/
def numericKwsBeforeDe811c7 (g : NKind) (r : FieldRules) : List (Str × Json) :=
  optKw K.minimum (r.gte.map (boundJson g)) ++
  (if r.gt.isSome then [(K.exclusiveMinimum, Json.bool false)] else []) ++
  optKw K.maximum (r.lte.map (boundJson g)) ++
  (if r.lt.isSome then [(K.exclusiveMaximum, Json.bool false)] else []) ++
  optKw K.const (r.numConst.map Json.num) ++
  (if r.numIn.isEmpty then [] else [(K.enum, Json.arr (r.numIn.map Json.num))])

def formatName : Fmt → String
  | .email => "email" | .uuid => "uuid" | .uri => "uri" | .hostname => "hostname"
  | .ip => "ip" | .ipv4 => "ipv4" | .ipv6 => "ipv6"

/-- `applyStringConstraints`. -/
def stringAnn (r : FieldRules) : List (Str × Json) :=
  (match r.pattern with | some (c :: p) => [(K.pattern, Json.str (c :: p))] | _ => []) ++
  optKw K.format (r.format.map fun f => S (formatName f))

/-- `applyStringConstraints`, over the way a `const` / `in` literal is stored (`lit`). -/
def stringCoreWith (lit : Str → Json) (r : FieldRules) : List (Str × Json) :=
  countKw K.minLength r.minLen ++ countKw K.maxLength r.maxLen ++
  (if r.strIn.isEmpty then [] else [(K.enum, Json.arr (r.strIn.map lit))]) ++
  optKw K.const (r.strConst.map lit)

/-- `stringNode` (since /repo `fix: openapi: string literals are tagged !!str`): the scalar carries the
tag `!!str`, so the emitter quotes whatever a reader could take for something else and the document
shows the string itself. -/
def stringLit (v : Str) : Json := .str v

def stringCore (r : FieldRules) : List (Str × Json) := stringCoreWith stringLit r

/-- before that fix: untagged plain scalars, re-typed by the reader (`yamlScalar`). Regression witness only. -/
def stringCoreBeforeFix (r : FieldRules) : List (Str × Json) := stringCoreWith yamlScalar r


/-- the scalar part of `extractValidationConstraints`: the getters return nil when the rules
sit in another group (and, for a repeated or map field, always: the group there is
`repeated` / `map`). Validation keywords ... -/
def scalarCore (k : FKind) (c : FCard) (r : FieldRules) : List (Str × Json) :=
  if c.isScalar then
    match k with
    | .string => stringCore r
    | .num nk => if r.group = getter nk then numericKws r.group r else []
    | .bool => []
  else []

/-- ... and annotation keywords (`pattern` is not interpreted by the model's validator). -/
def scalarAnn (k : FKind) (c : FCard) (r : FieldRules) : List (Str × Json) :=
  if c.isScalar then (match k with | .string => stringAnn r | _ => []) else []

def scalarKws (k : FKind) (c : FCard) (r : FieldRules) : List (Str × Json) := scalarAnn k c r ++ scalarCore k c r

/-- `applyRepeatedConstraints`. -/
def repeatedKws (r : FieldRules) : List (Str × Json) :=
  countKw K.minItems r.minItems ++ countKw K.maxItems r.maxItems ++
  (if r.unique then [(K.uniqueItems, Json.bool true)] else [])

/-- `applyMapConstraints`. -/
def mapKws (r : FieldRules) : List (Str × Json) :=
  countKw K.minProperties r.minPairs ++ countKw K.maxProperties r.maxPairs

/-- the keywords the rules contribute to the field's own schema object. Rule keywords come
first: a rule `minimum` replaces the `minimum: 0` of the unsigned kinds (`Json.oget` reads the
first binding). -/
def constraints (k : FKind) (c : FCard) (_int64Number : Bool) (r : FieldRules) : List (Str × Json) :=
  if c.isScalar then scalarKws k c r
  else if c = .repeated then repeatedKws r
  else mapKws r

/-- the whole schema object of the field (annotation keywords first; the document is compared
as a map, so only the relative order of the two possible `minimum` bindings matters). -/
def fieldSchema (k : FKind) (c : FCard) (int64Number : Bool) (r : FieldRules) : Json :=
  if c.isScalar then
    .obj ((scalarAnn k c r ++ baseAnn k int64Number) ++ (scalarCore k c r ++ baseCore k int64Number))
  else if c = .repeated then
    .obj ([(K.type, .str T.array),
           (K.items, .obj (baseAnn k int64Number ++ (repeatedKws r ++ baseCore k int64Number)))] ++ repeatedKws r)
  else
    .obj ([(K.type, .str T.object), (K.additionalProperties, .obj (baseAnn k false ++ baseCore k false))] ++ mapKws r)

/-- `format=json`: the YAML text is converted with `sigs.k8s.io/yaml`, a YAML 1.1 reader: the
plain scalars `y`/`yes`/`on`/`n`/`no`/`off` (in their three capitalisations) that a YAML 1.2
reader keeps as strings become booleans in the JSON document. -/
def yaml11True : List Str := ["y", "Y", "yes", "Yes", "YES", "on", "On", "ON"].map String.toList
def yaml11False : List Str := ["n", "N", "no", "No", "NO", "off", "Off", "OFF"].map String.toList

def json11 : Json → Json
  | .str w => if yaml11True.contains w then .bool true else if yaml11False.contains w then .bool false else .str w
  | x => x

def json11Kw (p : Str × Json) : Str × Json :=
  if p.1 = K.const then (p.1, json11 p.2)
  else if p.1 = K.enum then (p.1, match p.2 with | .arr l => .arr (l.map json11) | x => x)
  else p

/-- the field's schema object as the `format=json` document shows it (only `const` / `enum` of a
string field can differ from the YAML document). -/
def fieldSchemaJson (k : FKind) (c : FCard) (int64Number : Bool) (r : FieldRules) : Json :=
  match k, c.isScalar, fieldSchema k c int64Number r with
  | .string, true, .obj kvs => .obj (kvs.map json11Kw)
  | _, _, s => s

/-- `makeNullableSchema` (`(sebuf.http.nullable) = true` on a proto3 `optional` scalar): the schema
is rebuilt with `"null"` appended to its `type`; every other keyword — the rule keywords
included — is kept. -/
def makeNullable : Json → Json
  | .obj kvs =>
    (match kw K.type kvs with
     | some (.str t) => .obj (kvs.map fun p => if p.1 = K.type then (p.1, Json.arr [.str t, .str T.null]) else p)
     | _ => .obj kvs)
  | j => j

/-- the field's schema object, nullable annotation included. -/
def fieldSchemaN (nullable : Bool) (k : FKind) (c : FCard) (int64Number : Bool) (r : FieldRules) : Json :=
  if nullable && c.isScalar then makeNullable (fieldSchema k c int64Number r) else fieldSchema k c int64Number r

def fieldSchemaJsonN (nullable : Bool) (k : FKind) (c : FCard) (int64Number : Bool) (r : FieldRules) : Json :=
  if nullable && c.isScalar then makeNullable (fieldSchemaJson k c int64Number r) else fieldSchemaJson k c int64Number r

/-- before the `!!str` fix, rendering `const: ""` dereferenced a nil YAML document: the plugin died
without an answer. Regression witness only. -/
def crashesBeforeFix (k : FKind) (c : FCard) (r : FieldRules) : Bool :=
  c.isScalar && k == .string && r.strConst == some []

/-- no rule makes the renderer die any more. -/
def crashes (_k : FKind) (_c : FCard) (_r : FieldRules) : Bool := false

/-- the schema of a singular string field before the `!!str` fix. Regression witness only. -/
def stringSchemaBeforeFix (r : FieldRules) : Json :=
  .obj ((stringAnn r ++ baseAnn .string false) ++ (stringCoreBeforeFix r ++ baseCore .string false))

def stringSchemaJsonBeforeFix (r : FieldRules) : Json :=
  match stringSchemaBeforeFix r with
  | .obj kvs => .obj (kvs.map json11Kw)
  | s => s

/-- `buildObjectSchema`: the JSON names of the fields whose rules say `required`, in field order. -/
def requiredList (fields : List (Str × FieldRules)) : List Str :=
  (fields.filter fun f => f.2.required).map Prod.fst

end Impl

/-! ### schema acceptance with exact decimal bounds

`Schema.valid` compares numeric bounds between exact integers only (a float token on either side
satisfies the keyword). `accepts` adds the exact decimal comparison for the four bound keywords
of the top-level schema object, which is where the generator puts them. -/

def decBound (k : Str) (cmp : Dcm → Dcm → Bool) (kvs : List (Str × Json)) (j : Json) : Bool :=
  match kw k kvs, j with
  | some (.num b), .num x =>
    (match Dcm.ofJNum b, Dcm.ofJNum x with
     | some db, some dx => cmp db dx
     | _, _ => true)
  | _, _ => true

def decBoundsOk (kvs : List (Str × Json)) (j : Json) : Bool :=
  decBound K.minimum Dcm.le kvs j && decBound K.maximum (fun b x => Dcm.le x b) kvs j &&
  decBound K.exclusiveMinimum Dcm.lt kvs j && decBound K.exclusiveMaximum (fun b x => Dcm.lt x b) kvs j

def accepts (comps : List (Str × Json)) (fuel : Nat) (s j : Json) : Bool :=
  Schema.valid comps fuel s j && (match s with | .obj kvs => decBoundsOk kvs j | _ => true)

end Sebuf.OaRules

namespace Sebuf.OaRules

/-! ### the side conditions of the partial theorems of `Sebuf.Props.C19`, as one decidable test
(used by the harness to tag cases; not part of any statement) -/

def staysStringB (v : Str) : Bool := match yamlScalar v with | .str w => w == v | _ => false

def countOKB (o : Option Nat) : Bool := match o with | none => true | some m => decide (m < 2 ^ 63)
def countPosB (o : Option Nat) : Bool := match o with | none => true | some m => decide (0 < m ∧ m < 2 ^ 63)
def intBoundB (o : Option NumB) : Bool :=
  match o with
  | none => true
  | some b => (match b.v with | .int i => decide (i.natAbs ≤ 2 ^ 53) | _ => false)
def parsesB (o : Option NumB) : Bool := match o with | none => true | some b => (Dcm.ofJNum b.v).isSome
def wideExactB (o : Option NumB) : Bool := match o with | none => true | some b => b.wide == b.v

def inTheoremDomain (k : FKind) (c : FCard) (int64Number : Bool) (r : FieldRules) : Bool :=
  match c with
  | .single | .optional =>
    (match k with
     | .string => countOKB r.minLen && countPosB r.maxLen
     | .num nk =>
       r.group == nk &&
       (if nk == .int32 || (nk == .int64 && int64Number) then
          intBoundB r.gte && intBoundB r.lte && intBoundB r.gt && intBoundB r.lt
        else if nk.isFloat then
          ((parsesB r.gte && parsesB r.lte && parsesB r.gt && parsesB r.lt && r.numIn.isEmpty && r.numConst.isNone &&
              (nk == .double || (wideExactB r.gte && wideExactB r.lte && wideExactB r.gt && wideExactB r.lt))) ||
           (r.gte.isNone && r.lte.isNone && r.gt.isNone && r.lt.isNone))
        else false)
     | .bool => false)
  | .repeated => (k == .string || (k == .num .int32 && !int64Number)) && countOKB r.minItems && countPosB r.maxItems
  | .map => k == .string && countOKB r.minPairs && countPosB r.maxPairs

end Sebuf.OaRules
