package gen

import (
	"fmt"
	"strings"

	"verif/harness/ir"
)

var PathScalarKinds = []string{"string", "int32", "int64", "uint32", "uint64", "sint32", "sint64", "fixed32", "fixed64",
	"sfixed32", "sfixed64", "bool", "float", "double"}

var MethodNameShapes = []string{"Get", "GetUser", "GetHTTPInfo", "Get2FA", "get_user", "List", "CreateUserProfile", "Do", "X", "UpdateV2"}

var BasePaths = []string{"", "", "/api", "/api/v1", "/a/", "/api/v1/", "api", "a/b", "/"}

// FieldNameShapes are proto field names whose Go / JSON / TS spellings exercise the name
// derivations (single word, multi word, digits, digit after underscore).
var FieldNameShapes = []string{"id", "user_id", "name", "page_size", "with2digits", "x", "org_name", "q", "item_count", "flag", "ratio", "a1", "big_value", "tag"}

// RouteOpts steer GenRouteService.
type RouteOpts struct {
	SafeOnly     bool // only shapes inside every partial theorem's side condition and that compile
	AllowNoSlash bool
	// HostileQuery also draws query fields the Go client's zero-value comparison does not
	// compile for (repeated / optional / bytes / enum-free kinds).
	HostileQuery bool
	// SameMethodNames lets two services of the file share an RPC name.
	SameMethodNames bool
	// TrailingSlash sometimes ends an RPC path with "/" (or makes it exactly "/").
	TrailingSlash bool
	// PathRepeatsBase sometimes makes the RPC path BEGIN with the text of the service base path
	// (as a whole segment or as a mere string prefix: base "/api", path "/api-keys/…").
	PathRepeatsBase bool
	// QueryNameClash sometimes gives a query parameter the wire name of a path variable of the
	// same RPC that is bound to a DIFFERENT field (valid: no field is bound twice).
	QueryNameClash bool
	// Streaming sometimes declares an RPC with `stream` on the request and / or the response.
	Streaming bool
}

type routeField struct {
	name string
	kind string
	role string // path | query | body
}

func uniqueName(used map[string]bool, base string) string {
	n := base
	for i := 2; used[n]; i++ {
		n = fmt.Sprintf("%s%d", base, i)
	}
	used[n] = true
	return n
}

// GenRouteFile generates one file with 1..3 services whose RPCs vary over the axes of C03.
func GenRouteFile(r *R, idx int, o RouteOpts) *ir.Request {
	pkgs := [][2]string{{"demo.v1", "demov1"}, {"acme.users", "userspb"}, {"x", "x"}, {"shop.api.v2", "apiv2"}}
	pk := Pick(r, pkgs)
	f := &ir.File{
		Name:      fmt.Sprintf("t%d/svc.proto", idx),
		Package:   pk[0],
		GoPackage: "example.com/gen/" + strings.ReplaceAll(pk[0], ".", "/") + ";" + pk[1],
	}
	nsvc := 1
	if r.P(1, 4) {
		nsvc = 2 + r.Intn(2)
	}
	usedMsg := map[string]bool{}
	// RPC Go names are kept unique per FILE: go-http derives package-level identifiers from the
	// method name alone, so equal names in two services of one file do not compile (C13's subject).
	usedM := map[string]bool{}
	usedGo := map[string]bool{}
	for s := 0; s < nsvc; s++ {
		svc := &ir.Service{Name: Pick(r, []string{"UserService", "Admin", "OrderAPI", "S"})}
		if s > 0 {
			svc.Name = fmt.Sprintf("%s%d", svc.Name, s)
		}
		bases := BasePaths
		if o.SafeOnly {
			bases = []string{"", "/api", "/api/v1", "/a/", "/"}
		}
		svc.BasePath = Pick(r, bases)
		if svc.BasePath == "" && r.P(1, 5) {
			svc.HasConfig = true // config present with an empty base path
		}
		nm := 1 + r.Intn(4)
		usedInSvc := map[string]bool{}
		for m := 0; m < nm; m++ {
			mn := Pick(r, MethodNameShapes)
			gn := ir.GoCamelCase(mn)
			for (usedM[mn] || usedGo[gn]) && !(o.SameMethodNames && !usedInSvc[gn]) {
				mn = mn + "Z"
				gn = ir.GoCamelCase(mn)
			}
			usedInSvc[gn] = true
			usedM[mn] = true
			usedGo[gn] = true
			meth := &ir.Method{Name: mn}
			// config kind
			ck := r.Intn(4) // 0 absent, 1 path only, 2 verb only, 3 both
			if o.SafeOnly {
				ck = 3
				if r.P(1, 3) {
					ck = 1
				}
			}
			verb := ""
			if ck == 2 || ck == 3 {
				verb = Pick(r, []string{"GET", "POST", "PUT", "DELETE", "PATCH", ""})
			}
			// fields
			var fields []routeField
			usedF := map[string]bool{}
			nvars := 0
			path := ""
			if ck == 1 || ck == 3 {
				nvars = r.Intn(4)
				var segs []string
				lit := []string{"users", "items", "v", "by-id", "x.y", "orders"}
				shape := r.Intn(4) // 0 mixed, 1 vars first, 2 vars last, 3 adjacent
				for i := 0; i < nvars; i++ {
					fn := uniqueName(usedF, Pick(r, FieldNameShapes))
					fields = append(fields, routeField{fn, Pick(r, PathScalarKinds), "path"})
				}
				vi := 0
				switch shape {
				case 1:
					for ; vi < nvars; vi++ {
						segs = append(segs, "{"+fields[vi].name+"}")
					}
					segs = append(segs, Pick(r, lit))
				case 2:
					segs = append(segs, Pick(r, lit))
					for ; vi < nvars; vi++ {
						segs = append(segs, "{"+fields[vi].name+"}")
					}
				case 3:
					segs = append(segs, Pick(r, lit))
					for ; vi < nvars; vi++ {
						segs = append(segs, "{"+fields[vi].name+"}")
					}
					segs = append(segs, Pick(r, lit))
				default:
					for ; vi < nvars; vi++ {
						l := Pick(r, lit)
						if r.P(1, 4) {
							// the literal before a placeholder is spelled like the variable itself (`/email/{email}`)
							l = fields[vi].name
						}
						segs = append(segs, l, "{"+fields[vi].name+"}")
					}
					if nvars == 0 || r.Bool() {
						segs = append(segs, Pick(r, lit))
					}
				}
				path = "/" + strings.Join(segs, "/")
				if !o.SafeOnly && r.P(1, 8) {
					path = strings.TrimPrefix(path, "/") // no leading slash
				}
				if o.PathRepeatsBase && svc.BasePath != "" && r.P(1, 4) {
					b := "/" + strings.Trim(svc.BasePath, "/")
					if b != "/" {
						// the rest keeps its own leading slash: a variable must stay a whole segment
						// (net/http patterns and every generator's extraction are per segment)
						rest := "/" + strings.TrimPrefix(path, "/")
						switch r.Intn(3) {
						case 0:
							path = b + rest // whole segment(s) repeated
						case 1:
							path = b + "-keys" + rest // string prefix only
						default:
							path = b + "s" + rest
						}
					}
				}
				if o.TrailingSlash && r.P(1, 4) {
					if nvars == 0 && r.P(1, 3) {
						path = "/"
					} else if !strings.HasSuffix(path, "/") {
						path += "/"
					}
				}
			}
			bodiless := verb == "GET" || verb == "DELETE"
			nq := r.Intn(3)
			if o.SafeOnly && !bodiless {
				nq = 0
			}
			for i := 0; i < nq; i++ {
				fn := uniqueName(usedF, Pick(r, FieldNameShapes))
				qk := Pick(r, []string{"string", "int32", "int64", "bool", "uint32", "double"})
				if o.HostileQuery && r.P(1, 4) {
					qk = Pick(r, []string{"bytes", "repeated:string", "optional:int32", "repeated:int64"})
				}
				fields = append(fields, routeField{fn, qk, "query"})
			}
			if !bodiless {
				nb := r.Intn(3)
				for i := 0; i < nb; i++ {
					fn := uniqueName(usedF, Pick(r, FieldNameShapes))
					fields = append(fields, routeField{fn, Pick(r, []string{"string", "int32", "bool", "int64"}), "body"})
				}
			}
			if ck != 0 {
				meth.Config = &ir.HTTPConfig{Path: path, Method: verb}
			}
			in := &ir.Message{Name: uniqueName(usedMsg, ir.GoCamelCase(svc.Name)+gn+"Request")}
			// shuffle field declaration order a little
			perm := make([]int, len(fields))
			for i := range perm {
				perm[i] = i
			}
			for i := len(perm) - 1; i > 0; i-- {
				j := r.Intn(i + 1)
				perm[i], perm[j] = perm[j], perm[i]
			}
			clashed := false
			for n, pi := range perm {
				rf := fields[pi]
				fl := &ir.Field{Name: rf.name, Number: int32(n + 1), Kind: rf.kind}
				if i := strings.Index(rf.kind, ":"); i > 0 {
					fl.Card, fl.Kind = rf.kind[:i], rf.kind[i+1:]
				}
				if rf.role == "query" {
					q := &ir.Query{Name: rf.name}
					switch r.Intn(4) {
					case 0:
						q.Name = "" // defaults to the field name
					case 1:
						q.Name = strings.ReplaceAll(rf.name, "_", "-")
					}
					if o.QueryNameClash && !clashed && r.P(1, 3) {
						clashed = true
						for _, pf := range fields {
							if pf.role == "path" {
								q.Name = pf.name
								break
							}
						}
					}
					q.Required = r.P(1, 4)
					fl.Ann.Query = q
				}
				in.Fields = append(in.Fields, fl)
			}
			out := &ir.Message{Name: uniqueName(usedMsg, ir.GoCamelCase(svc.Name)+gn+"Response"),
				Fields: []*ir.Field{{Name: "ok", Number: 1, Kind: "bool"}}}
			f.Messages = append(f.Messages, in, out)
			prefix := "."
			if f.Package != "" {
				prefix = "." + f.Package + "."
			}
			meth.Input = prefix + in.Name
			meth.Output = prefix + out.Name
			if o.Streaming && r.P(1, 3) {
				meth.ClientStreaming, meth.ServerStreaming = r.Bool(), true
				if r.P(1, 3) {
					meth.ClientStreaming, meth.ServerStreaming = true, false
				}
			}
			svc.Methods = append(svc.Methods, meth)
		}
		f.Services = append(f.Services, svc)
	}
	return &ir.Request{Files: []*ir.File{f}, Generate: []string{f.Name}}
}
