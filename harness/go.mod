module verif/harness

go 1.24.7

require (
	buf.build/gen/go/bufbuild/protovalidate/protocolbuffers/go v1.36.11-20260209202127-80ab13bee0bf.1
	github.com/SebastienMelki/sebuf v0.0.0
	go.yaml.in/yaml/v4 v4.0.0-rc.4
	google.golang.org/protobuf v1.36.11
)

replace github.com/SebastienMelki/sebuf => /repo
