package props

import (
	"fmt"
	"regexp"
	"sort"
	"strings"

	"verif/harness/drv"
	"verif/harness/gen"
	"verif/harness/ir"
	"verif/harness/plug"
)

func init() { Registry["C18"] = C18 }

var oaParams = []struct{ label, param, ext string }{
	{"default", "", "yaml"}, {"yaml", "format=yaml", "yaml"}, {"yml", "format=yml", "yaml"}, {"json", "format=json", "json"},
	{"unknown", "format=xml", "yaml"}, {"json+paths", "paths=source_relative,format=json", "json"},
}

var rePathVar = regexp.MustCompile(`\{([^{}]*)\}`)

func hasDupStr(xs []string) bool {
	seen := map[string]bool{}
	for _, x := range xs {
		if seen[x] {
			return true
		}
		seen[x] = true
	}
	return false
}

// C18: each OpenAPI document is well-formed, complete and format-independent.
func C18(c *Ctx) error {
	res := c.Res
	res.Rule = "generated schemas (same-named nested types, recursive types, several services per file, imported files, messages named like built-in schemas, path variables in base paths / repeated, annotation-driven shapes, YAML-hostile custom strings, headers) x format parameter {absent, yaml, yml, json, unknown value, combined with paths=}; " +
		"a case is one (schema, service) document: file naming and count vs the Lean emission model, byte equality of the YAML variants, JSON vs YAML denotation, Lean OpenApi.check on the parsed real document (references, path variables vs declared path parameters, parameter names, operation ids), component set vs the Lean component model and per-message ownership; distinct by (shape tags, service shape, verdict vector)"
	res.Assumptions = append(res.Assumptions, "documents are parsed with go.yaml.in/yaml/v4 (YAML 1.2 core schema) and encoding/json; descriptor nested-type order is the harness convention (map entries, then declared nested types)")
	r := gen.New(c.Seed)
	n := c.N(60, 900)
	type job struct {
		req  *ir.Request
		tags []string
	}
	jobs := make([]job, n)
	for i := 0; i < n; i++ {
		rr := r.Fork(fmt.Sprint("c18-", i))
		switch i % 5 {
		case 0, 1, 2:
			req, tags := gen.GenOAFile(rr, i, gen.OAOpts{})
			jobs[i] = job{req, tags}
		case 3:
			f := gen.GenAnnotFile(rr, i, gen.AnnotOpts{})
			jobs[i] = job{&ir.Request{Files: []*ir.File{f}, Generate: []string{f.Name}}, []string{"annot"}}
		default:
			jobs[i] = job{gen.GenRuntimeFile(rr, i, gen.RuntimeOpts{Headers: true, Rules: true, ErrorTypes: i%2 == 0, ManyMethods: true}), []string{"runtime"}}
		}
	}
	// forced shapes so that every recorded class is met at every seed
	forced := []map[string]bool{
		{"nested_same_name": true}, {"base_var": true}, {"repeated_var": true}, {"hostile_values": true, "annotated": true},
		{"imported": true, "multi_service": true, "recursive": true}, {"builtin_names": true, "headers": true},
		{"multi_service": true, "empty_service": true}, {"query_named_like_path_var": true}, {"two_vars_in_segment": true}, {"go_name_collision": true},
		{"base_var": true, "base_var_field": true},
	}
	for k, sh := range forced {
		for j := 0; j < c.N(2, 12); j++ {
			req, tags := gen.GenOAFile(r.Fork(fmt.Sprintf("c18-forced-%d-%d", k, j)), 10000+k*100+j, gen.OAOpts{Shapes: sh})
			jobs = append(jobs, job{req, tags})
		}
	}
	// every hostile plain scalar of the list, three per small schema (the generator walks the list by
	// schema index): YAML-1.1 booleans, numbers in every notation, timestamps, indicators
	for h := 0; 3*h < len(gen.YAMLHostile); h++ {
		req, tags := gen.GenOAFile(r.Fork(fmt.Sprintf("c18-hostile-%d", h)), h, gen.OAOpts{Shapes: map[string]bool{"hostile_values": true}})
		jobs = append(jobs, job{req, tags})
	}
	parallel(len(jobs), func(i int) {
		c18One(c, jobs[i].req, jobs[i].tags)
	})
	return nil
}

func c18One(c *Ctx, req *ir.Request, tags []string) {
	res := c.Res
	svcs := oaServices(req)
	replayBase := map[string]any{"request": req, "tags": tags}
	outs := map[string]*plug.Result{}
	for _, p := range oaParams {
		o, err := oaRun(req, p.param)
		if err != nil {
			res.Violation("harness", "cannot run openapiv3: "+err.Error(), replayBase)
			return
		}
		outs[p.label] = o
	}
	def := outs["default"]
	if cl := answerClass(def); cl != "files" {
		// refusals and crashes are C12 / C16 matter; every parameter must give the same class
		res.Count("not_generated:" + cl)
		for _, p := range oaParams {
			if answerClass(outs[p.label]) != cl {
				res.Violation("format_changes_outcome", fmt.Sprintf("default run answers %s, %s answers %s", cl, p.label, answerClass(outs[p.label])), replayBase)
			}
		}
		res.Case(map[string]any{"tags": tags, "class": cl}, false)
		return
	}
	// ---- file naming and count (Impl: OaEmit over regenerated main facts)
	var svcNames []string
	for _, s := range svcs {
		svcNames = append(svcNames, s.S.Name)
	}
	var ops []map[string]any
	for _, p := range oaParams {
		op := map[string]any{"op": "oa_names", "services": svcNames}
		// the model reads the `format` key of the parameter string the way parseParameters does
		for _, kv := range strings.Split(p.param, ",") {
			if strings.HasPrefix(kv, "format=") {
				op["param"] = strings.TrimPrefix(kv, "format=")
			}
		}
		ops = append(ops, op)
	}
	model := req.ToModel()
	for _, s := range svcs {
		ops = append(ops, map[string]any{"op": "oa_components", "model": model, "service": s.S.Name})
	}
	for _, s := range svcs {
		var ms []any
		for _, m := range s.S.Methods {
			ms = append(ms, methodDigest(req, s.F, s.S, m))
		}
		ops = append(ops, map[string]any{"op": "route_svc", "ms": ms})
	}
	// parse the YAML documents first: the rendering model needs their keys and untagged scalars
	ydocs := map[string]map[string]any{}
	var nonFinite []string
	keySet, valSet := map[string]bool{}, map[string]bool{}
	for _, s := range svcs {
		name := s.S.Name + ".openapi.yaml"
		ytext, ok := def.Files[name]
		if !ok {
			continue
		}
		d, nf, err := parseYAMLDocNF(ytext)
		if err != nil {
			res.Violation("yaml_unparsable", name+": "+err.Error(), map[string]any{"request": req, "text": ytext})
			continue
		}
		ydocs[name] = d
		nonFinite = append(nonFinite, nf...)
		oaStrings(d, false, keySet, valSet)
	}
	var y11in []string
	for k := range keySet {
		y11in = append(y11in, k)
	}
	for k := range valSet {
		if !keySet[k] {
			y11in = append(y11in, k)
		}
	}
	sort.Strings(y11in)
	ops = append(ops, map[string]any{"op": "yaml11", "strings": y11in}, map[string]any{"op": "yaml11", "strings": nonFinite})
	ans, err := drv.Run(ops)
	if err != nil {
		res.Corr("driver", err.Error(), replayBase)
		return
	}
	y11 := ans[len(ans)-2]
	y11crash, _ := ans[len(ans)-1]["crashes"].(bool)
	renamed := map[string]string{}
	retyped := map[string]bool{}
	for i, k := range y11in {
		renamed[k] = fmt.Sprint(asList(y11["keys"])[i])
		retyped[k], _ = asList(y11["retyped"])[i].(bool)
	}
	keyFn := func(k string) string { return renamed[k] }
	retypeFn := func(v string) (bool, bool) { return renamed[v] == "true", retyped[v] }
	for pi, p := range oaParams {
		o := outs[p.label]
		if answerClass(o) != "files" {
			if p.ext == "json" && answerClass(o) == "crash" && strings.Contains(o.Stderr, "failed to convert YAML to JSON") {
				res.Divergence("json_render_crash", fmt.Sprintf("format=yaml generates, %s panics: %s", p.label, firstLine(o.Stderr)), y11crash, map[string]any{"request": req, "param": p.param, "non_finite_scalars": nonFinite})
				continue
			}
			res.Violation("format_changes_outcome", fmt.Sprintf("default generates, %s answers %s: %s", p.label, answerClass(o), errText(o)), replayBase)
			continue
		}
		if p.ext == "json" && y11crash {
			res.Corr("json_render_crash", "the Lean rendering model predicts a panic of the JSON rendering that did not happen", map[string]any{"request": req, "param": p.param, "non_finite_scalars": nonFinite})
		}
		var want []string
		for _, x := range asList(ans[pi]["names"]) {
			want = append(want, fmt.Sprint(x))
		}
		got := append([]string(nil), o.Order...)
		if len(svcNames) > 0 && hasDupStr(svcNames) {
			res.Count("duplicate_service_names")
		} else if !sameStrings(got, want) {
			res.Corr("file_names:"+p.label, fmt.Sprintf("emitted %v, Lean emission model says %v", got, want), map[string]any{"request": req, "param": p.param})
		} else {
			res.CorrAgree()
		}
		// one document per service, named after it, with the extension of the format
		if len(got) != len(svcNames) {
			res.Violation("doc_count:"+p.label, fmt.Sprintf("%d services, %d documents", len(svcNames), len(got)), map[string]any{"request": req, "param": p.param})
		}
		for k, s := range svcNames {
			if k < len(got) && got[k] != s+".openapi."+p.ext {
				res.Violation("doc_name:"+p.label, fmt.Sprintf("service %s got document %s", s, got[k]), map[string]any{"request": req, "param": p.param})
			}
		}
	}
	// ---- YAML variants are the same bytes
	for _, lbl := range []string{"yaml", "yml", "unknown"} {
		o := outs[lbl]
		for name, text := range def.Files {
			if o.Files[name] != text {
				res.Violation("yaml_variants_differ", fmt.Sprintf("%s: format %s differs from the default rendering", name, lbl), map[string]any{"request": req, "label": lbl})
			}
		}
	}
	// ---- per document
	for si, s := range svcs {
		name := s.S.Name + ".openapi.yaml"
		ytext, ok := def.Files[name]
		if !ok {
			continue
		}
		verdict := map[string]any{}
		replay := map[string]any{"request": req, "service": s.S.Name, "document": name}
		_ = ytext
		ydoc := ydocs[name]
		if ydoc == nil {
			continue
		}
		predictedJSON := oaPredictJSON(ydoc, false, keyFn, retypeFn)
		// JSON vs YAML
		for _, lbl := range []string{"json", "json+paths"} {
			jtext, ok := outs[lbl].Files[s.S.Name+".openapi.json"]
			if !ok {
				continue
			}
			jdoc, err := parseJSONDoc(jtext)
			if err != nil {
				res.Violation("json_unparsable", s.S.Name+": "+err.Error(), map[string]any{"request": req, "text": jtext})
				continue
			}
			// correspondence: the real JSON rendering is the Lean rendering model applied to the YAML document
			implOK := docDiff(predictedJSON, jdoc, "") == ""
			if implOK {
				res.CorrAgree()
			} else {
				pd := docDiff(predictedJSON, jdoc, "")
				res.Corr("json_rendering", fmt.Sprintf("%s: at %s the Lean rendering model predicts %s, the JSON document holds %s", s.S.Name, pd, canonJSON(atPointer(predictedJSON, pd)), canonJSON(atPointer(jdoc, pd))),
					map[string]any{"request": req, "service": s.S.Name, "pointer": pd})
			}
			if d := docDiff(ydoc, jdoc, ""); d != "" {
				yv, jv := atPointer(ydoc, d), atPointer(jdoc, d)
				what := fmt.Sprintf("%s: at %s the YAML document holds %s and the JSON document holds %s", s.S.Name, d, canonJSON(yv), canonJSON(jv))
				res.Divergence("json_yaml_differ", what, implOK, map[string]any{"request": req, "service": s.S.Name, "pointer": d, "yaml": yv, "json": jv})
				verdict["json_yaml"] = "differ"
			} else {
				verdict["json_yaml"] = "same"
			}
		}
		if v, _ := ydoc["openapi"].(string); !strings.HasPrefix(v, "3.1") {
			res.Violation("not_openapi_3_1", fmt.Sprintf("%s: openapi version %q", name, v), replay)
		}
		// Lean well-formedness predicates on the real parsed document
		wf, err := drv.Run([]map[string]any{{"op": "oa_wf", "doc": ydoc}})
		if err != nil {
			res.Corr("driver", err.Error(), replay)
			continue
		}
		w := wf[0]
		b := func(k string) bool { v, _ := w[k].(bool); return v }
		// Impl prediction of the path-variable predicate from the route model
		implPathOK := true
		rs := ans[len(oaParams)+len(svcs)+si]
		for _, mv := range asList(rs["methods"]) {
			mm, _ := mv.(map[string]any)
			rts, _ := mm["routes"].(map[string]any)
			rt := routeFromJSONRaw(rts["openapi"])
			var tv []string
			for _, g := range rePathVar.FindAllStringSubmatch(rt.Template, -1) {
				tv = append(tv, g[1])
			}
			// the model declares each variable of the template once, in order of first occurrence
			var uniq []string
			seenV := map[string]bool{}
			for _, v := range tv {
				if !seenV[v] {
					seenV[v] = true
					uniq = append(uniq, v)
				}
			}
			if !sameStrings(uniq, rt.PathVars) {
				implPathOK = false
			}
		}
		if !b("refs_resolve") {
			res.Violation("unresolved_reference", fmt.Sprintf("%s: %v", name, w["unresolved"]), replay)
		}
		if !b("path_vars_declared") {
			key := "path_vars_undeclared"
			if strings.Contains(s.S.BasePath, "{") {
				key = "path_var_in_base_path_undeclared"
			} else {
				for _, m := range s.S.Methods {
					if m.Config != nil {
						var tv []string
						for _, g := range rePathVar.FindAllStringSubmatch(m.Config.Path, -1) {
							tv = append(tv, g[1])
						}
						if hasDupStr(tv) {
							key = "repeated_path_variable"
						}
					}
				}
			}
			res.Divergence(key, name+": path template variables and declared path parameters differ", !implPathOK, replay)
		} else if !implPathOK {
			res.Corr("path_vars", name+": the Lean route model predicts a template/parameter mismatch the document does not have", replay)
		} else {
			res.CorrAgree()
		}
		if !b("param_names_unique") {
			// the only modelled source: a path variable used twice is declared twice
			res.Divergence("repeated_path_variable", name+": a parameter name occurs twice in one location", !implPathOK && repeatedVar(s.S), replay)
		}
		if !b("op_ids_unique") {
			res.Violation("duplicate_operation_id", name, replay)
		}
		verdict["wf"] = []bool{b("refs_resolve"), b("path_vars_declared"), b("param_names_unique"), b("op_ids_unique")}
		// ---- components: names (correspondence) and ownership (oracle)
		ca := ans[len(oaParams)+si]
		predicted := map[string]string{}
		for _, e := range asList(ca["components"]) {
			p := asList(e)
			if len(p) == 2 {
				predicted[fmt.Sprint(p[0])] = fmt.Sprint(p[1])
			}
		}
		real := oaComponents(ydoc)
		var rn, pn []string
		for k := range real {
			rn = append(rn, k)
		}
		for k := range predicted {
			pn = append(pn, k)
		}
		sort.Strings(rn)
		sort.Strings(pn)
		if !sameStrings(rn, pn) {
			res.Corr("component_names", fmt.Sprintf("%s: document has %v, Lean component model has %v", name, rn, pn), replay)
		} else {
			res.CorrAgree()
		}
		incomplete := 0
		for _, fv := range asList(ca["reach"]) {
			full := fmt.Sprint(fv)
			m, _ := req.FindMessage(full)
			if m == nil {
				continue // well-known type
			}
			short := full[strings.LastIndex(full, ".")+1:]
			owner := predicted[short]
			schema, present := real[short]
			if !present {
				res.Divergence("component_missing", fmt.Sprintf("%s: reachable message %s has no component schema", name, full), owner == "", replay)
				incomplete++
				continue
			}
			if !plainMessage(m) {
				res.Count("ownership_unchecked_shape")
				continue
			}
			describes := sameStrings(propertyNames(schema), jsonNames(m))
			switch {
			case describes && owner == full:
				res.CorrAgree()
			case describes:
				res.Count("collision_same_shape")
			case owner != full:
				incomplete++
				res.Divergence("component_name_collision", fmt.Sprintf("%s: schema %q describes %s, reachable message %s (properties %v) has none of its own", name, short, owner, full, jsonNames(m)), true, replay)
			default:
				res.Violation("component_wrong_schema", fmt.Sprintf("%s: schema %q has properties %v, message %s has %v", name, short, propertyNames(schema), full, jsonNames(m)), replay)
			}
		}
		verdict["incomplete"] = incomplete
		nops := 0
		for _, m := range s.S.Methods {
			_ = m
			nops++
		}
		res.Case(map[string]any{"tags": tags, "methods": nops, "verdict": verdict, "components": len(real)}, true)
		for _, t := range tags {
			res.Count("shape:" + strings.SplitN(t, ":", 2)[0])
		}
	}
}

func repeatedVar(s *ir.Service) bool {
	for _, m := range s.Methods {
		if m.Config != nil {
			var tv []string
			for _, g := range rePathVar.FindAllStringSubmatch(m.Config.Path, -1) {
				tv = append(tv, g[1])
			}
			if hasDupStr(tv) {
				return true
			}
		}
	}
	return false
}

type rawRoute struct {
	Template string
	PathVars []string
}

// routeFromJSONRaw keeps the declared order and multiplicity of the path variables.
func routeFromJSONRaw(v any) rawRoute {
	m, _ := v.(map[string]any)
	r := rawRoute{}
	r.Template, _ = m["template"].(string)
	for _, x := range asList(m["path_vars"]) {
		r.PathVars = append(r.PathVars, fmt.Sprint(x))
	}
	return r
}
