import Sebuf.OaSchema
import Sebuf.Lemmas.JsonSchema
import Sebuf.Lemmas.Mapping
/-!
Helper lemmas for C06: the documented wire forms of `Sebuf.Mapping` against the component
schemas of `Sebuf.OaSchema`, under the validator of `Sebuf.JsonSchema`.

* `undeclaredDeep` / `memberSchemas` unfoldings;
* one lemma per scalar kind and annotation state of `scalarSchema`, `WellKinded` (the value is of
  the field's kind) and the master lemma `scalar_valid`;
* closed forms of the encoders on scalar values (`encList_scalars`, `encMap_scalars`,
  `encFields_flat`) — the encoders are compiled by well-founded recursion, nothing here is `decide`d;
* the server's own error bodies against the built-in `Error` / `ValidationError` components;
* `null` against the nullable / `empty_behavior = NULL` field schemas;
* the flat-message assembly;
* `nestedVariantSchema` / `nestedOneofSchema` (mirror of `buildNestedOneofVariants`) and their
  unsatisfiability.
-/
namespace Sebuf.OaSchema
open Sebuf Json Schema Mapping

/-! ### small list / object facts -/

theorem length_filter_le_of_imp {α : Type _} (p q : α → Bool) :
    ∀ l : List α, (∀ x ∈ l, p x = true → q x = true) → (l.filter p).length ≤ (l.filter q).length
  | [], _ => Nat.le_refl _
  | x :: t, h => by
    have ih := length_filter_le_of_imp p q t (fun y hy => h y (List.mem_cons_of_mem _ hy))
    have hx := h x List.mem_cons_self
    cases hp : p x <;> cases hq : q x <;> simp [List.filter, hp, hq] <;> first | omega | simp_all

theorem filter_eq_self_of_all {α : Type _} (p : α → Bool) (l : List α) (h : ∀ x ∈ l, p x = true) :
    l.filter p = l := List.filter_eq_self.mpr h

theorem length_filter_split {α : Type _} (p : α → Bool) :
    ∀ l : List α, l.length = (l.filter p).length + (l.filter fun x => !p x).length
  | [] => rfl
  | x :: t => by
    have ih := length_filter_split p t
    cases hp : p x <;> simp [List.filter, hp] <;> omega

theorem length_filter_key_le_one (k : Str) :
    ∀ l : List (Str × Json), (l.map Prod.fst).Nodup → (l.filter fun v => v.1 == k).length ≤ 1
  | [], _ => by simp
  | v :: t, h => by
    rw [List.map_cons, List.nodup_cons] at h
    have ih := length_filter_key_le_one k t h.2
    by_cases e : v.1 = k
    · have : t.filter (fun w => w.1 == k) = [] := by
        rw [List.filter_eq_nil_iff]
        intro w hw hk
        have hk' : w.1 = k := by simpa using hk
        exact h.1 (List.mem_map.mpr ⟨w, hw, by rw [hk', e]⟩)
      simp [List.filter, e, this]
    · have : (v.1 == k) = false := by simpa using e
      simp [List.filter, this]
      exact ih

theorem oget_eq_none_iff (k : Str) : ∀ o : List (Str × Json), Json.oget k o = none ↔ ∀ p ∈ o, p.1 ≠ k
  | [] => by simp [Json.oget]
  | (k', v) :: t => by
    by_cases e : k' = k
    · simp [Json.oget, e]
    · simp [Json.oget, e, oget_eq_none_iff k t]

/-- lookup in a table built from a list with pairwise distinct keys. -/
theorem oget_map_of_nodup {α : Type _} (key : α → Str) (val : α → Json) :
    ∀ (l : List α), (l.map key).Nodup → ∀ a ∈ l, Json.oget (key a) (l.map fun x => (key x, val x)) = some (val a)
  | [], _, a, ha => by cases ha
  | x :: t, h, a, ha => by
    rw [List.map_cons, List.nodup_cons] at h
    rcases List.mem_cons.mp ha with rfl | ha'
    · simp [Json.oget]
    · have hne : key x ≠ key a := fun e => h.1 (e ▸ List.mem_map.mpr ⟨a, ha', rfl⟩)
      simp only [List.map_cons, Json.oget, if_neg hne]
      exact oget_map_of_nodup key val t h.2 a ha'

/-! ### `undeclaredDeep` / `memberSchemas` / `itemSchemas` unfoldings -/

/-- below a value that is neither an object nor an array nothing can be undeclared. -/
theorem undeclaredDeep_leaf (comps : List (Str × Json)) (fuel : Nat) (ss : List Json) (j : Json) (path : Str)
    (ho : j.isObj = false) (ha : j.isArr = false) : undeclaredDeep comps fuel ss j path = [] := by
  cases fuel with
  | zero => rfl
  | succ n =>
    cases j with
    | obj m => simp [Json.isObj] at ho
    | arr l => simp [Json.isArr] at ha
    | _ => simp [undeclaredDeep]

theorem undeclaredDeep_obj (comps : List (Str × Json)) (fuel : Nat) (ss : List Json)
    (members : List (Str × Json)) (path : Str) (h : anyTrue ss = false) :
    undeclaredDeep comps (fuel + 1) ss (Json.obj members) path =
      members.flatMap fun m =>
        let p := if path.isEmpty then m.1 else path ++ ('/' :: m.1)
        let ms := ss.flatMap fun s => memberSchemas comps (fuel + 1) s m.1
        if ms.isEmpty then [p] else undeclaredDeep comps fuel ms m.2 p := by
  rw [undeclaredDeep]; simp [h]

theorem undeclaredDeep_arr (comps : List (Str × Json)) (fuel : Nat) (ss : List Json) (l : List Json)
    (path : Str) (h : anyTrue ss = false) :
    undeclaredDeep comps (fuel + 1) ss (Json.arr l) path =
      (let is := ss.flatMap fun s => itemSchemas comps (fuel + 1) s
       if is.isEmpty then [] else l.flatMap fun x => undeclaredDeep comps fuel is x path) := by
  rw [undeclaredDeep]; simp [h]

/-- a member named by `properties` is described (by that entry first). -/
theorem memberSchemas_property (comps : List (Str × Json)) (fuel : Nat) (kvs ps : List (Str × Json))
    (k : Str) (x : Json) (hp : kw K.properties kvs = some (Json.obj ps)) (hk : Json.oget k ps = some x) :
    ∃ rest, memberSchemas comps (fuel + 1) (Json.obj kvs) k = x :: rest := by
  rw [memberSchemas]
  simp only [hp, hk]
  exact ⟨_, rfl⟩

/-- a schema that is only a `$ref` describes what its target describes. -/
theorem memberSchemas_via_ref (comps : List (Str × Json)) (fuel : Nat) (kvs : List (Str × Json)) (k : Str)
    (t : Json) (h1 : kw K.properties kvs = none) (h2 : kw K.additionalProperties kvs = none)
    (h3 : refTarget comps kvs = [t]) (h4 : compositionSubs kvs = []) :
    memberSchemas comps (fuel + 1) (Json.obj kvs) k = memberSchemas comps fuel t k := by
  rw [memberSchemas]
  simp [h1, h2, h3, h4]

theorem memberSchemas_ref (comps : List (Str × Json)) (fuel : Nat) (name k : Str) (t : Json)
    (ht : Json.oget name comps = some t) :
    memberSchemas comps (fuel + 1)
      (Json.obj [("$ref".toList, Json.str ("#/components/schemas/".toList ++ name))]) k =
      memberSchemas comps fuel t k := by
  have hn := refName_mk name
  generalize "#/components/schemas/".toList ++ name = r at hn ⊢
  apply memberSchemas_via_ref
  · simp [kw, Json.oget, K.properties]
  · simp [kw, Json.oget, K.additionalProperties]
  · simp [refTarget, kw, Json.oget, K.ref, hn, ht]
  · simp [compositionSubs, subSchemasOf, kw, Json.oget, K.allOf, K.oneOf, K.anyOf]

theorem itemSchemas_items (comps : List (Str × Json)) (fuel : Nat) (kvs : List (Str × Json)) (x : Json)
    (hi : kw K.items kvs = some x) : ∃ rest, itemSchemas comps (fuel + 1) (Json.obj kvs) = x :: rest := by
  rw [itemSchemas]
  simp only [hi]
  exact ⟨_, rfl⟩

/-! ### the encoders on scalar values (closed forms) -/

/-- not a message, list or map value. -/
def isScalarVal : Val → Bool
  | .list _ | .map _ | .msg _ => false
  | _ => true

theorem encFieldVal_scalar (rq : Request) (ann g : Bool) (fuel : Nat) (f : Field) (v : Val)
    (h : isScalarVal v = true) : encFieldVal rq ann g (fuel + 1) f v = scalarJson rq ann f v := by
  cases v <;> first
    | (simp [isScalarVal] at h; done)
    | (rw [encFieldVal] <;> (intros; contradiction))

theorem encFieldVal_list (rq : Request) (ann g : Bool) (fuel : Nat) (f : Field) (l : List Val) :
    encFieldVal rq ann g (fuel + 1) f (.list l) = Json.arr (encList rq ann g fuel f l) := by
  rw [encFieldVal]

theorem encFieldVal_map (rq : Request) (ann g : Bool) (fuel : Nat) (f : Field) (kvs : List (Str × Val)) :
    encFieldVal rq ann g (fuel + 1) f (.map kvs) = Json.obj (encMap rq ann g fuel f kvs) := by
  rw [encFieldVal]

theorem encList_scalars (rq : Request) (ann g : Bool) (fuel : Nat) (f : Field) :
    ∀ l : List Val, (∀ v ∈ l, isScalarVal v = true) →
      encList rq ann g (fuel + 2) f l = l.map (scalarJson rq ann f)
  | [], _ => by rw [encList] <;> simp
  | v :: rest, h => by
    rw [encList, encList_scalars rq ann g fuel f rest (fun x hx => h x (List.mem_cons_of_mem _ hx)),
      encFieldVal_scalar _ _ _ _ _ _ (h v List.mem_cons_self)]
    rfl

theorem encMap_scalars (rq : Request) (ann g : Bool) (fuel : Nat) (f : Field) :
    ∀ kvs : List (Str × Val), (∀ p ∈ kvs, isScalarVal p.2 = true) →
      encMap rq ann g (fuel + 2) f kvs = kvs.map (fun p => (p.1, scalarJson rq ann f p.2))
  | [], _ => by rw [encMap] <;> simp
  | (k, v) :: rest, h => by
    have hv : isScalarVal v = true := h (k, v) List.mem_cons_self
    have hv' : ∀ vs, v = Val.msg vs → False := fun vs e => by subst e; simp [isScalarVal] at hv
    rw [encMap.eq_4 _ _ _ _ _ _ _ _ hv',
      encMap_scalars rq ann g fuel f rest (fun x hx => h x (List.mem_cons_of_mem _ hx)),
      encFieldVal_scalar _ _ _ _ _ _ hv]
    rfl

/-- the field-level conditions of the flat fragment: singular (or proto3 `optional`), none of
`nullable`, `empty_behavior`, `flatten`, `unwrap`. -/
def flatField (f : Field) : Bool :=
  (f.card == .singular || f.card == .optional) && !f.nullable && f.emptyBehavior == 0 && !f.flatten && !f.unwrap

theorem flatField_iff (f : Field) : flatField f = true ↔
    (f.card = .singular ∨ f.card = .optional) ∧ f.nullable = false ∧ f.emptyBehavior = 0 ∧
      f.flatten = false ∧ f.unwrap = false := by
  simp [flatField, and_assoc]

/-- the members a flat message value contributes: one per populated field, in field order. -/
def flatMembers (rq : Request) (fs : List Field) (vs : List (Str × Val)) : List (Str × Json) :=
  fs.filterMap fun f => (vs.lookup f.name).map fun v => (f.json, scalarJson rq true f v)

theorem mem_flatMembers {rq : Request} {fs : List Field} {vs : List (Str × Val)} {p : Str × Json}
    (h : p ∈ flatMembers rq fs vs) :
    ∃ f ∈ fs, ∃ v, vs.lookup f.name = some v ∧ p = (f.json, scalarJson rq true f v) := by
  simp only [flatMembers, List.mem_filterMap, Option.map_eq_some_iff] at h
  obtain ⟨f, hf, v, hv, e⟩ := h
  exact ⟨f, hf, v, hv, e.symm⟩

theorem encFields_flat (rq : Request) (g : Bool) (fuel : Nat) (m : Message) (vs : List (Str × Val))
    (ho : ∀ o ∈ m.oneofs, o.hasConfig = false) :
    ∀ fs : List Field, (∀ f ∈ fs, flatField f = true) →
      (∀ f ∈ fs, ∀ v, vs.lookup f.name = some v → isScalarVal v = true) →
      encFields rq true g (fuel + 2) m fs vs = flatMembers rq fs vs
  | [], _, _ => by rw [encFields_nil]; rfl
  | f :: rest, hf, hv => by
    have ih := encFields_flat rq g fuel m vs ho rest (fun x hx => hf x (List.mem_cons_of_mem _ hx))
      (fun x hx => hv x (List.mem_cons_of_mem _ hx))
    have ⟨_, hnul, hemp, hfl, _⟩ := (flatField_iff f).mp (hf f List.mem_cons_self)
    rw [encFields, ih]
    cases hl : vs.lookup f.name with
    | none => simp [hnul, flatMembers, hl]
    | some v =>
      have hs := hv f List.mem_cons_self v hl
      simp only [if_true, oneofConfig_none m ho f, Bool.false_eq_true, if_false, hfl, hemp,
        Bool.true_and, Bool.false_and, bne_self_eq_false, encFieldVal_scalar _ _ _ _ _ _ hs]
      simp [flatMembers, hl]

theorem encMsg_flat (rq : Request) (g : Bool) (fuel : Nat) (m : Message) (vs : List (Str × Val))
    (ho : ∀ o ∈ m.oneofs, o.hasConfig = false) (hf : ∀ f ∈ m.fields, flatField f = true)
    (hv : ∀ f ∈ m.fields, ∀ v, vs.lookup f.name = some v → isScalarVal v = true) :
    encMsg rq true g (fuel + 3) m vs = Json.obj (flatMembers rq m.fields vs) := by
  have hany : (m.fields.any fun x => x.unwrap) = false := by
    rw [List.any_eq_false]
    intro x hx
    simp [((flatField_iff x).mp (hf x hx)).2.2.2.2]
  rw [encMsg_obj _ _ _ _ _ _ hany, encFields_flat rq g fuel m vs ho m.fields hf hv]

/-- a scalar wire form is never an object or an array. -/
theorem scalarJson_leaf (rq : Request) (ann : Bool) (f : Field) (v : Val) :
    (scalarJson rq ann f v).isObj = false ∧ (scalarJson rq ann f v).isArr = false := by
  cases v with
  | int i => simp only [scalarJson, intJson]; split <;> simp [Json.isObj, Json.isArr]
  | float t q => simp only [scalarJson]; split <;> simp [Json.isObj, Json.isArr]
  | enum n =>
    simp only [scalarJson, enumJson]
    split
    · simp [Json.isObj, Json.isArr]
    · split
      · simp [Json.isObj, Json.isArr]
      · split
        · simp [Json.isObj, Json.isArr]
        · split
          · split <;> simp [Json.isObj, Json.isArr]
          · simp [Json.isObj, Json.isArr]
  | ts s n r d =>
    simp only [scalarJson, tsJson]
    split
    · simp [Json.isObj, Json.isArr]
    · split <;> simp [Json.isObj, Json.isArr]
  | _ => simp [scalarJson, bytesJson, Json.isObj, Json.isArr]

/-! ### scalar kinds -/

section closed
attribute [local simp] Schema.valid objValid leafOk applicatorsOk typeOk enumOk constOk numericOk
  numBoundOk stringOk countOk arrayCountsOk uniqueOk objectCountsOk requiredOk requiredEntryOk refOk itemsOk
  propertiesOk propsOf memberOk allOfOk anyOfOk oneOfOk notOk kw Json.oget typeAccepts
  typeEntryAccepts Json.isStr Json.isNull Json.isBool Json.isObj Json.isArr Json.isNum strLen
  arrLen objLen geB leB
  K.ref K.type K.enum K.const K.minimum K.maximum K.exclusiveMinimum K.exclusiveMaximum K.minLength K.maxLength K.pattern K.items K.minItems K.maxItems K.uniqueItems K.properties K.required K.additionalProperties K.minProperties K.maxProperties K.allOf K.anyOf K.oneOf K.not T.null T.boolean T.object T.array T.number T.integer T.string
  sObj sStr typed typedF zero

theorem valid_int32 (rq : Request) (f : Field) (comps : List (Str × Json)) (n : Nat) (i : Int)
    (hk : f.kind = .int32 ∨ f.kind = .sint32 ∨ f.kind = .sfixed32) :
    Schema.valid comps (n + 1) (scalarSchema rq f) (scalarJson rq true f (.int i)) = true := by
  rcases hk with h | h | h <;> simp [scalarSchema, scalarJson, intJson, Kind.isInt64, h]

/-- 64-bit kinds (signed and unsigned) without `int64_encoding = NUMBER`: a decimal string. -/
theorem valid_int64_string (rq : Request) (f : Field) (comps : List (Str × Json)) (n : Nat) (i : Int)
    (hk : f.kind = .int64 ∨ f.kind = .sint64 ∨ f.kind = .sfixed64 ∨ f.kind = .uint64 ∨ f.kind = .fixed64)
    (he : f.int64Enc ≠ 2) :
    Schema.valid comps (n + 1) (scalarSchema rq f) (scalarJson rq true f (.int i)) = true ∧
    scalarJson rq true f (.int i) = Json.str (toString i).toList := by
  rcases hk with h | h | h | h | h <;> simp [scalarSchema, scalarJson, intJson, Kind.isInt64, h, he]

theorem valid_int64_number (rq : Request) (f : Field) (comps : List (Str × Json)) (n : Nat) (i : Int)
    (hk : f.kind = .int64 ∨ f.kind = .sint64 ∨ f.kind = .sfixed64) (he : f.int64Enc = 2) :
    Schema.valid comps (n + 1) (scalarSchema rq f) (scalarJson rq true f (.int i)) = true ∧
    scalarJson rq true f (.int i) = Json.num (.int i) := by
  rcases hk with h | h | h <;> simp [scalarSchema, scalarJson, intJson, Kind.isInt64, h, he]

/-- unsigned 32-bit: valid exactly when the number is not negative (`minimum: 0`). -/
theorem valid_uint32 (rq : Request) (f : Field) (comps : List (Str × Json)) (n : Nat) (i : Int)
    (hk : f.kind = .uint32 ∨ f.kind = .fixed32) :
    Schema.valid comps (n + 1) (scalarSchema rq f) (scalarJson rq true f (.int i)) = decide (0 ≤ i) := by
  rcases hk with h | h <;> simp [scalarSchema, scalarJson, intJson, Kind.isInt64, h]

theorem valid_uint64_number (rq : Request) (f : Field) (comps : List (Str × Json)) (n : Nat) (i : Int)
    (hk : f.kind = .uint64 ∨ f.kind = .fixed64) (he : f.int64Enc = 2) :
    Schema.valid comps (n + 1) (scalarSchema rq f) (scalarJson rq true f (.int i)) = decide (0 ≤ i) := by
  rcases hk with h | h <;> simp [scalarSchema, scalarJson, intJson, Kind.isInt64, h, he]

theorem valid_bool (rq : Request) (f : Field) (comps : List (Str × Json)) (n : Nat) (b : Bool)
    (hk : f.kind = .bool) :
    Schema.valid comps (n + 1) (scalarSchema rq f) (scalarJson rq true f (.bool b)) = true := by
  simp [scalarSchema, scalarJson, hk]

theorem valid_string (rq : Request) (f : Field) (comps : List (Str × Json)) (n : Nat) (s : Str)
    (hk : f.kind = .string) :
    Schema.valid comps (n + 1) (scalarSchema rq f) (scalarJson rq true f (.str s)) = true := by
  simp [scalarSchema, scalarJson, hk]

theorem valid_float (rq : Request) (f : Field) (comps : List (Str × Json)) (n : Nat) (tok : Str)
    (hk : f.kind = .float ∨ f.kind = .double) :
    Schema.valid comps (n + 1) (scalarSchema rq f) (scalarJson rq true f (.float tok false)) = true := by
  rcases hk with h | h <;> simp [scalarSchema, scalarJson, h]

/-- `NaN` / `Infinity` / `-Infinity` are JSON strings on the wire; `{type: number}` rejects them. -/
theorem invalid_nonfinite (rq : Request) (f : Field) (comps : List (Str × Json)) (fuel : Nat) (tok : Str)
    (hk : f.kind = .float ∨ f.kind = .double) :
    Schema.valid comps fuel (scalarSchema rq f) (scalarJson rq true f (.float tok true)) = false := by
  cases fuel <;> rcases hk with h | h <;> simp [scalarSchema, scalarJson, h]

/-- every `bytes_encoding`: a string (`format` is an annotation, `pattern` is uninterpreted). -/
theorem valid_bytes (rq : Request) (f : Field) (comps : List (Str × Json)) (n : Nat) (b : Bytes)
    (hk : f.kind = .bytes) :
    Schema.valid comps (n + 1) (scalarSchema rq f) (scalarJson rq true f (.bytes b)) = true := by
  simp only [scalarSchema, scalarJson, hk, bytesJson]
  unfold bytesSchema
  split <;> simp

/-- every `timestamp_format`. -/
theorem valid_ts (rq : Request) (f : Field) (comps : List (Str × Json)) (n : Nat) (s : Int) (ns : Nat)
    (r d : Str) (hk : f.kind = .message) (ht : isTimestampName f.typeName = true) :
    Schema.valid comps (n + 1) (scalarSchema rq f) (scalarJson rq true f (.ts s ns r d)) = true := by
  simp only [scalarSchema, scalarJson, hk, ht, if_true]
  unfold timestampSchema tsJson
  split <;> simp_all

theorem find_defined {e : EnumT} {k : Int} (hn : ∃ v ∈ e.values, v.1 = k) :
    ∃ w, e.values.find? (fun x => x.1 == k) = some w ∧ w ∈ e.values ∧ w.1 = k := by
  obtain ⟨v, hv, hvn⟩ := hn
  cases hf : e.values.find? (fun x => x.1 == k) with
  | some w =>
    refine ⟨w, rfl, List.mem_of_find?_eq_some hf, ?_⟩
    have := List.find?_some hf
    simpa using this
  | none =>
    rw [List.find?_eq_none] at hf
    exact absurd (by simp [hvn]) (hf v hv)

/-- STRING (default) enum encoding: a defined number is sent as its name (or custom value), which
is a listed member. -/
theorem valid_enum_string (rq : Request) (f : Field) (comps : List (Str × Json)) (n : Nat) (k : Int)
    (e : EnumT) (hk : f.kind = .enum) (hE : rq.findEnum f.typeName = some e) (he : f.enumEnc ≠ 2)
    (hn : ∃ v ∈ e.values, v.1 = k) (hc : ∀ v ∈ e.values, v.2.2 ≠ some []) :
    Schema.valid comps (n + 1) (scalarSchema rq f) (scalarJson rq true f (.enum k)) = true := by
  obtain ⟨w, hw, hwm, _⟩ := find_defined hn
  have hcw := hc w hwm
  obtain ⟨a, name, custom⟩ := w
  simp only [scalarSchema, scalarJson, hk, enumSchema, enumJson, hE, hw]
  cases custom with
  | none =>
    simp [he]
    exact ⟨a, name, none, hwm, by simp [Json.beq]⟩
  | some c =>
    simp [he]
    refine ⟨a, name, some c, hwm, ?_⟩
    have : c ≠ [] := fun h => hcw (by simp [h])
    simp [Json.beq, this]

theorem valid_enum_number (rq : Request) (f : Field) (comps : List (Str × Json)) (n : Nat) (k : Int)
    (e : EnumT) (hk : f.kind = .enum) (hE : rq.findEnum f.typeName = some e) (he : f.enumEnc = 2)
    (hn : ∃ v ∈ e.values, v.1 = k) :
    Schema.valid comps (n + 1) (scalarSchema rq f) (scalarJson rq true f (.enum k)) = true := by
  obtain ⟨v, hv, hvn⟩ := hn
  simp [scalarSchema, scalarJson, hk, enumSchema, enumJson, hE, he]
  obtain ⟨a, b, c⟩ := v
  exact ⟨a, ⟨b, c, hv⟩, by simp at hvn; simp [Json.beq, hvn]⟩

/-- an enum number the enum does not define is printed as a number; the string enum rejects it. -/
theorem invalid_enum_undefined (rq : Request) (f : Field) (comps : List (Str × Json)) (fuel : Nat) (k : Int)
    (e : EnumT) (hk : f.kind = .enum) (hE : rq.findEnum f.typeName = some e) (he : f.enumEnc ≠ 2)
    (hn : ∀ v ∈ e.values, v.1 ≠ k) :
    scalarJson rq true f (.enum k) = Json.num (.int k) ∧
    Schema.valid comps fuel (scalarSchema rq f) (scalarJson rq true f (.enum k)) = false := by
  have hf : e.values.find? (fun x => x.1 == k) = none := by
    rw [List.find?_eq_none]; intro v hv; simpa using hn v hv
  have hj : scalarJson rq true f (.enum k) = Json.num (.int k) := by
    simp [scalarJson, enumJson, hE, he, hf]
  refine ⟨hj, ?_⟩
  rw [hj]
  cases fuel <;> simp [scalarSchema, hk, enumSchema, hE, he]

/-! ### collections -/

theorem fieldSchema_repeated (rq : Request) (f : Field) (h : f.card = .repeated) :
    fieldSchema rq f = Json.obj [("type".toList, Json.str "array".toList), ("items".toList, scalarSchema rq f)] := by
  simp [fieldSchema, h]

/-- a repeated field: an array validates iff every element validates against `scalarSchema`. -/
theorem valid_repeated (rq : Request) (f : Field) (comps : List (Str × Json)) (n : Nat) (l : List Json)
    (h : f.card = .repeated) :
    Schema.valid comps (n + 1) (fieldSchema rq f) (Json.arr l) =
      l.all (Schema.valid comps n (scalarSchema rq f)) := by
  rw [fieldSchema_repeated rq f h]
  simp

theorem fieldSchema_map_scalar (rq : Request) (f : Field) (h : f.card = .map) (hk : f.kind ≠ .message) :
    fieldSchema rq f = Json.obj [("type".toList, Json.str "object".toList),
      ("additionalProperties".toList, scalarSchema rq (mapValueField f))] := by
  have : (f.kind == Kind.message) = false := by
    cases hkk : f.kind <;> first | rfl | exact absurd hkk hk
  simp [fieldSchema, h, this]

/-- a map field with scalar values: an object validates iff every value validates against the
schema of the (annotation-free) value field. -/
theorem valid_map_scalar (rq : Request) (f : Field) (comps : List (Str × Json)) (n : Nat)
    (kvs : List (Str × Json)) (h : f.card = .map) (hk : f.kind ≠ .message) :
    Schema.valid comps (n + 1) (fieldSchema rq f) (Json.obj kvs) =
      kvs.all (fun p => Schema.valid comps n (scalarSchema rq (mapValueField f)) p.2) := by
  rw [fieldSchema_map_scalar rq f h hk]
  simp
  congr 1

/-! ### the server's own error bodies -/

theorem errorBody_valid (n : Nat) (msg : Str) :
    Schema.valid builtinComponents (n + 3) errorSchema (errorBody msg) = true := by
  by_cases h : msg = [] <;> simp [errorSchema, errorBody, h]

theorem violation_valid (n : Nat) (v : Str × Str) (h1 : v.1 ≠ []) (h2 : v.2 ≠ []) :
    Schema.valid builtinComponents (n + 2) fieldViolationSchema (violationJson v) = true := by
  simp [fieldViolationSchema, violationJson, h1, h2]

theorem oget_fieldViolation :
    Json.oget "FieldViolation".toList builtinComponents = some fieldViolationSchema := by
  simp [builtinComponents]

theorem validationErrorBody_valid (n : Nat) (vs : List (Str × Str)) (hne : vs ≠ [])
    (hv : ∀ v ∈ vs, v.1 ≠ [] ∧ v.2 ≠ []) :
    Schema.valid builtinComponents (n + 5) validationErrorSchema (validationErrorBody vs) = true := by
  have hitems : ∀ v ∈ vs, Schema.valid builtinComponents (n + 3)
      (Json.obj [("$ref".toList, sStr "#/components/schemas/FieldViolation")]) (violationJson v) = true := by
    intro v hvm
    have := valid_ref builtinComponents (n + 2) "FieldViolation".toList (violationJson v)
    rw [oget_fieldViolation] at this
    simp only [sStr]
    exact Eq.trans this (violation_valid n v (hv v hvm).1 (hv v hvm).2)
  simp only [validationErrorSchema, validationErrorBody]
  simp [hne, -Schema.valid]
  rw [Schema.valid]
  simp [-Schema.valid]
  rw [Schema.valid]
  simp [-Schema.valid]
  intro a b hab
  have := hitems (a, b) hab
  simpa [sStr] using this

/-- `{}` (an empty violation list is omitted by protojson) misses the required `violations`. -/
theorem validationErrorBody_nil_invalid (fuel : Nat) :
    Schema.valid builtinComponents fuel validationErrorSchema (validationErrorBody []) = false := by
  cases fuel <;> simp [validationErrorSchema, validationErrorBody]

/-! ### satisfiability, `null` -/

theorem messageSchema_eq (rq : Request) (m : Message) :
    messageSchema rq m = Json.obj [("type".toList, Json.str "object".toList),
      ("properties".toList, Json.obj (m.fields.map fun f => (f.json, fieldSchema rq f)))] := by
  simp [messageSchema]

/-- a plain message schema against an object: member-wise. -/
theorem valid_messageSchema_obj (rq : Request) (m : Message) (comps : List (Str × Json)) (n : Nat)
    (members : List (Str × Json)) :
    Schema.valid comps (n + 1) (messageSchema rq m) (Json.obj members) =
      members.all (memberOk (Schema.valid comps n) (m.fields.map fun f => (f.json, fieldSchema rq f)) none) := by
  rw [messageSchema_eq]
  simp [-memberOk]

theorem messageSchema_rejects_null (rq : Request) (m : Message) (comps : List (Str × Json)) (fuel : Nat) :
    Schema.valid comps fuel (messageSchema rq m) Json.null = false := by
  rw [messageSchema_eq]
  cases fuel <;> simp

theorem anyTrue_messageSchema (rq : Request) (m : Message) : anyTrue [messageSchema rq m] = false := by
  rw [messageSchema_eq]; simp [anyTrue]

theorem kw_properties_messageSchema (rq : Request) (m : Message) :
    ∃ kvs, messageSchema rq m = Json.obj kvs ∧
      kw K.properties kvs = some (Json.obj (m.fields.map fun f => (f.json, fieldSchema rq f))) := by
  refine ⟨_, messageSchema_eq rq m, ?_⟩
  simp

/-- `nullable` on a field whose schema has a `type` other than an enum: `null` is accepted. -/
theorem nullable_valid_null (rq : Request) (f : Field) (comps : List (Str × Json)) (n : Nat)
    (hc : f.card = .singular ∨ f.card = .optional) (hn : f.nullable = true)
    (hk : f.kind ≠ .enum) (hm : f.kind = .message → isTimestampName f.typeName = true) :
    Schema.valid comps (n + 1) (fieldSchema rq f) Json.null = true := by
  have hfs : fieldSchema rq f = makeNullable (scalarSchema rq f) := by
    rcases hc with h | h <;> simp [fieldSchema, h, hn]
  rw [hfs]
  cases hkk : f.kind with
  | enum => exact absurd hkk hk
  | message =>
    simp only [scalarSchema, hkk, hm hkk, if_true]
    unfold timestampSchema
    split <;> simp [makeNullable, Json.oset]
  | bytes =>
    simp only [scalarSchema, hkk]
    unfold bytesSchema
    split <;> simp [makeNullable, Json.oset]
  | int64 => simp only [scalarSchema, hkk]; split <;> simp [makeNullable, Json.oset]
  | sint64 => simp only [scalarSchema, hkk]; split <;> simp [makeNullable, Json.oset]
  | sfixed64 => simp only [scalarSchema, hkk]; split <;> simp [makeNullable, Json.oset]
  | uint64 => simp only [scalarSchema, hkk]; split <;> simp [makeNullable, Json.oset]
  | fixed64 => simp only [scalarSchema, hkk]; split <;> simp [makeNullable, Json.oset]
  | _ => simp [scalarSchema, hkk, makeNullable, Json.oset]

/-- `nullable` on an enum field: the `enum` keyword is kept, `null` is not a listed value. -/
theorem nullable_enum_invalid_null (rq : Request) (f : Field) (comps : List (Str × Json)) (fuel : Nat)
    (e : EnumT) (hc : f.card = .singular ∨ f.card = .optional) (hn : f.nullable = true)
    (hk : f.kind = .enum) (hE : rq.findEnum f.typeName = some e) :
    Schema.valid comps fuel (fieldSchema rq f) Json.null = false := by
  have hfs : fieldSchema rq f = makeNullable (scalarSchema rq f) := by
    rcases hc with h | h <;> simp [fieldSchema, h, hn]
  rw [hfs]
  simp only [scalarSchema, hk, enumSchema, hE]
  cases fuel with
  | zero => simp
  | succ n =>
    split
    · simp [makeNullable, Json.oset, Json.beq]
    · simp [makeNullable, Json.oset]
      intro a b c _
      cases c with
      | none => simp [Json.beq]
      | some c => by_cases hc' : c = [] <;> simp [Json.beq, hc']

/-- `empty_behavior = NULL` on a message field: `oneOf [S, {type: null}]` accepts `null` as soon
as `S` itself does not. -/
theorem emptyNull_valid_null (rq : Request) (f : Field) (comps : List (Str × Json)) (n : Nat)
    (hc : f.card = .singular ∨ f.card = .optional) (hn : f.nullable = false)
    (hk : f.kind = .message) (he : f.emptyBehavior = 2)
    (hs : Schema.valid comps (n + 1) (scalarSchema rq f) Json.null = false) :
    Schema.valid comps (n + 2) (fieldSchema rq f) Json.null = true := by
  have hfs : fieldSchema rq f =
      Json.obj [("oneOf".toList, Json.arr [scalarSchema rq f, Json.obj [("type".toList, Json.str "null".toList)]])] := by
    rcases hc with h | h <;> simp [fieldSchema, h, hn, hk, he]
  rw [hfs, valid_oneOf]
  have h2 : Schema.valid comps (n + 1) (Json.obj [("type".toList, Json.str "null".toList)]) Json.null = true :=
    valid_type_null comps (n + 1) (by omega)
  simp only [List.filter, hs, h2]
  rfl

/-- a `$ref` to a component that is a plain message schema rejects `null`. -/
theorem refTo_message_rejects_null (rq : Request) (tm : Message) (comps : List (Str × Json)) (fuel : Nat)
    (full : Str) (hcomp : Json.oget (shortName full) comps = some (messageSchema rq tm)) :
    Schema.valid comps fuel (refTo full) Json.null = false := by
  cases fuel with
  | zero => exact valid_zero _ _ _
  | succ n =>
    unfold refTo
    rw [valid_ref, hcomp]
    exact messageSchema_rejects_null rq tm comps n

end closed

/-- `{}` misses the required `description` when the violation has none. -/
theorem violation_empty_description_invalid (fuel : Nat) (fld : Str) :
    Schema.valid builtinComponents fuel fieldViolationSchema (violationJson (fld, [])) = false := by
  cases fuel with
  | zero => exact valid_zero _ _ _
  | succ n =>
    by_cases h : fld = [] <;>
      simp [fieldViolationSchema, violationJson, h, Schema.valid, objValid, leafOk, objectCountsOk, requiredOk,
        requiredEntryOk, kw, Json.oget, sObj, sStr, K.required, List.all]

/-! ### `undeclaredDeep` of the error bodies -/

theorem anyTrue_single_obj (k : Str) (v : Json) (rest : List (Str × Json)) :
    anyTrue [Json.obj ((k, v) :: rest)] = false := by
  simp [anyTrue]

theorem errorBody_undeclared (n : Nat) (msg : Str) :
    Schema.undeclaredDeep builtinComponents (n + 3) [errorSchema] (errorBody msg) [] = [] := by
  by_cases h : msg = []
  · simp [errorBody, h, undeclaredDeep, anyTrue, errorSchema, sObj]
  · have hb : errorBody msg = Json.obj [("message".toList, Json.str msg)] := by simp [errorBody, h]
    have hs : anyTrue [errorSchema] = false := by simp [errorSchema, sObj, anyTrue]
    rw [hb, undeclaredDeep_obj _ _ _ _ _ hs]
    obtain ⟨rest, hr⟩ := memberSchemas_property builtinComponents (n + 2)
      [("type".toList, sStr "object"), ("properties".toList, sObj [("message", typed "string")])]
      [("message".toList, typed "string")] "message".toList (typed "string")
      (by simp [kw, Json.oget, K.properties, sObj]) (by simp [Json.oget])
    have hr' : memberSchemas builtinComponents (n + 2 + 1) errorSchema "message".toList = typed "string" :: rest := by
      simpa [errorSchema, sObj] using hr
    simp only [List.flatMap_cons, List.flatMap_nil, List.append_nil, hr', List.isEmpty_cons]
    exact undeclaredDeep_leaf _ _ _ _ _ rfl rfl

/-! ### well-kinded values, master lemma -/

/-- `v` is a scalar value a field of `f`'s kind can hold. -/
def WellKinded (rq : Request) (f : Field) : Val → Prop
  | .int i =>
    (f.kind = .int32 ∨ f.kind = .sint32 ∨ f.kind = .sfixed32 ∨ f.kind = .int64 ∨ f.kind = .sint64 ∨ f.kind = .sfixed64) ∨
    ((f.kind = .uint32 ∨ f.kind = .fixed32 ∨ f.kind = .uint64 ∨ f.kind = .fixed64) ∧ 0 ≤ i)
  | .bool _ => f.kind = .bool
  | .str _ => f.kind = .string
  | .float _ q => (f.kind = .float ∨ f.kind = .double) ∧ q = false
  | .bytes _ => f.kind = .bytes
  | .enum n => f.kind = .enum ∧ ∃ e, rq.findEnum f.typeName = some e ∧ (∃ v ∈ e.values, v.1 = n) ∧
      (∀ v ∈ e.values, v.2.2 ≠ some [])
  | .ts _ _ _ _ => f.kind = .message ∧ isTimestampName f.typeName = true
  | _ => False

theorem WellKinded.scalar {rq : Request} {f : Field} {v : Val} (h : WellKinded rq f v) : isScalarVal v = true := by
  cases v <;> first | rfl | exact h.elim

/-- **master lemma**: the documented wire form of a well-kinded scalar validates against the
field's element schema. -/
theorem scalar_valid (rq : Request) (f : Field) (comps : List (Str × Json)) (n : Nat) (v : Val)
    (h : WellKinded rq f v) :
    Schema.valid comps (n + 1) (scalarSchema rq f) (scalarJson rq true f v) = true := by
  cases v with
  | int i =>
    rcases h with h | ⟨h, hi⟩
    · rcases h with h | h | h | h | h | h
      · exact valid_int32 rq f comps n i (Or.inl h)
      · exact valid_int32 rq f comps n i (Or.inr (Or.inl h))
      · exact valid_int32 rq f comps n i (Or.inr (Or.inr h))
      all_goals
        by_cases he : f.int64Enc = 2
        · exact (valid_int64_number rq f comps n i (by simp [h]) he).1
        · exact (valid_int64_string rq f comps n i (by simp [h]) he).1
    · rcases h with h | h | h | h
      · rw [valid_uint32 rq f comps n i (Or.inl h)]; simpa using hi
      · rw [valid_uint32 rq f comps n i (Or.inr h)]; simpa using hi
      all_goals
        by_cases he : f.int64Enc = 2
        · rw [valid_uint64_number rq f comps n i (by simp [h]) he]; simpa using hi
        · exact (valid_int64_string rq f comps n i (by simp [h]) he).1
  | bool b => exact valid_bool rq f comps n b h
  | str s => exact valid_string rq f comps n s h
  | float t q => obtain ⟨hk, rfl⟩ := h; exact valid_float rq f comps n t hk
  | bytes b => exact valid_bytes rq f comps n b h
  | enum k =>
    obtain ⟨hk, e, hE, hn, hc⟩ := h
    by_cases he : f.enumEnc = 2
    · exact valid_enum_number rq f comps n k e hk hE he hn
    · exact valid_enum_string rq f comps n k e hk hE he hn hc
  | ts s ns r d => exact valid_ts rq f comps n s ns r d h.1 h.2
  | msg _ => exact h.elim
  | list _ => exact h.elim
  | map _ => exact h.elim

/-! ### more `undeclaredDeep` helpers -/

/-- a schema with neither `$ref` nor composition keywords: the `properties` entry alone. -/
theorem memberSchemas_property_plain (comps : List (Str × Json)) (fuel : Nat) (kvs ps : List (Str × Json))
    (k : Str) (x : Json) (hp : kw K.properties kvs = some (Json.obj ps)) (hk : Json.oget k ps = some x)
    (h3 : refTarget comps kvs = []) (h4 : compositionSubs kvs = []) :
    memberSchemas comps (fuel + 1) (Json.obj kvs) k = [x] := by
  rw [memberSchemas]
  simp [hp, hk, h3, h4]

theorem itemSchemas_plain (comps : List (Str × Json)) (fuel : Nat) (kvs : List (Str × Json)) (x : Json)
    (hi : kw K.items kvs = some x) (h3 : refTarget comps kvs = []) (h4 : compositionSubs kvs = []) :
    itemSchemas comps (fuel + 1) (Json.obj kvs) = [x] := by
  rw [itemSchemas]
  simp [hi, h3, h4]

/-- an object all of whose members are described and hold leaves has nothing undeclared. -/
theorem undeclaredDeep_obj_nil (comps : List (Str × Json)) (fuel : Nat) (ss : List Json)
    (members : List (Str × Json)) (path : Str) (hs : anyTrue ss = false)
    (h : ∀ m ∈ members, (ss.flatMap fun s => memberSchemas comps (fuel + 1) s m.1) ≠ [] ∧
      m.2.isObj = false ∧ m.2.isArr = false) :
    undeclaredDeep comps (fuel + 1) ss (Json.obj members) path = [] := by
  rw [undeclaredDeep_obj _ _ _ _ _ hs, List.flatMap_eq_nil_iff]
  intro m hm
  obtain ⟨h1, h2, h3⟩ := h m hm
  have : (ss.flatMap fun s => memberSchemas comps (fuel + 1) s m.1).isEmpty = false := by
    cases hh : (ss.flatMap fun s => memberSchemas comps (fuel + 1) s m.1) with
    | nil => exact absurd hh h1
    | cons _ _ => rfl
  simp only [this, Bool.false_eq_true, if_false]
  exact undeclaredDeep_leaf _ _ _ _ _ h2 h3

/-! ### collections of well-kinded scalars -/

theorem repeated_valid (rq : Request) (f : Field) (comps : List (Str × Json)) (n k : Nat) (g : Bool)
    (l : List Val) (hc : f.card = .repeated) (hl : ∀ v ∈ l, WellKinded rq f v) :
    Schema.valid comps (n + 2) (fieldSchema rq f) (encFieldVal rq true g (k + 3) f (.list l)) = true := by
  rw [encFieldVal_list, encList_scalars _ _ _ _ _ l (fun v hv => (hl v hv).scalar), valid_repeated _ _ _ _ _ hc,
    List.all_eq_true]
  intro j hj
  obtain ⟨v, hv, rfl⟩ := List.mem_map.mp hj
  exact scalar_valid rq f comps n v (hl v hv)

theorem wellKinded_mapValueField (rq : Request) (f : Field) (v : Val) :
    WellKinded rq (mapValueField f) v ↔ WellKinded rq f v := by
  cases v <;> exact Iff.rfl

section closed2
attribute [local simp] Schema.valid objValid leafOk applicatorsOk typeOk enumOk constOk numericOk
  numBoundOk stringOk countOk arrayCountsOk uniqueOk objectCountsOk requiredOk requiredEntryOk refOk itemsOk
  propertiesOk propsOf memberOk allOfOk anyOfOk oneOfOk notOk kw Json.oget typeAccepts
  typeEntryAccepts Json.isStr Json.isNull Json.isBool Json.isObj Json.isArr Json.isNum strLen
  arrLen objLen geB leB
  K.ref K.type K.enum K.const K.minimum K.maximum K.exclusiveMinimum K.exclusiveMaximum K.minLength K.maxLength K.pattern K.items K.minItems K.maxItems K.uniqueItems K.properties K.required K.additionalProperties K.minProperties K.maxProperties K.allOf K.anyOf K.oneOf K.not T.null T.boolean T.object T.array T.number T.integer T.string
  sObj sStr typed typedF zero

theorem valid_bytesSchema_str (f : Field) (comps : List (Str × Json)) (n : Nat) (s : Str) :
    Schema.valid comps (n + 1) (bytesSchema f) (Json.str s) = true := by
  unfold bytesSchema
  split <;> simp

/-- the value of a map entry is encoded with the MAP FIELD's annotations while its schema is that
of the annotation-free synthetic value field: they agree when the map field carries no
`int64_encoding = NUMBER` / `enum_encoding = NUMBER`. -/
theorem mapValue_valid (rq : Request) (f : Field) (comps : List (Str × Json)) (n : Nat) (v : Val)
    (hk : f.kind ≠ .message) (h64 : f.int64Enc ≠ 2) (hen : f.enumEnc ≠ 2) (h : WellKinded rq f v) :
    Schema.valid comps (n + 1) (scalarSchema rq (mapValueField f)) (scalarJson rq true f v) = true := by
  have h' := (wellKinded_mapValueField rq f v).mpr h
  cases v with
  | int i =>
    have h64' : (f.int64Enc == 2) = false := by simpa using h64
    have e : scalarJson rq true f (.int i) = scalarJson rq true (mapValueField f) (.int i) := by
      simp [scalarJson, mapValueField, h64']
    rw [e]; exact scalar_valid rq _ comps n _ h'
  | enum k =>
    have hen' : (f.enumEnc == 2) = false := by simpa using hen
    have e : scalarJson rq true f (.enum k) = scalarJson rq true (mapValueField f) (.enum k) := by
      simp [scalarJson, enumJson, mapValueField, hen']
    rw [e]; exact scalar_valid rq _ comps n _ h'
  | bytes b =>
    have hb : f.kind = .bytes := h
    have e1 : scalarSchema rq (mapValueField f) = bytesSchema (mapValueField f) := by
      simp only [scalarSchema, mapValueField, hb]
    have e2 : scalarJson rq true f (.bytes b) = Json.str (bytesToStr (sebufBytesEncode f.bytesEnc b)) := by
      simp only [scalarJson, bytesJson, if_true]
    rw [e1, e2]
    exact valid_bytesSchema_str _ comps n _
  | ts s ns r d => exact absurd h.1 hk
  | bool b =>
    have e : scalarJson rq true f (.bool b) = scalarJson rq true (mapValueField f) (.bool b) := rfl
    rw [e]; exact scalar_valid rq (mapValueField f) comps n (.bool b) h'
  | str s =>
    have e : scalarJson rq true f (.str s) = scalarJson rq true (mapValueField f) (.str s) := rfl
    rw [e]; exact scalar_valid rq (mapValueField f) comps n (.str s) h'
  | float t q =>
    have e : scalarJson rq true f (.float t q) = scalarJson rq true (mapValueField f) (.float t q) := rfl
    rw [e]; exact scalar_valid rq (mapValueField f) comps n (.float t q) h'
  | msg _ => exact h.elim
  | list _ => exact h.elim
  | map _ => exact h.elim

theorem map_valid (rq : Request) (f : Field) (comps : List (Str × Json)) (n k : Nat) (g : Bool)
    (kvs : List (Str × Val)) (hc : f.card = .map) (hk : f.kind ≠ .message) (h64 : f.int64Enc ≠ 2)
    (hen : f.enumEnc ≠ 2) (hl : ∀ p ∈ kvs, WellKinded rq f p.2) :
    Schema.valid comps (n + 2) (fieldSchema rq f) (encFieldVal rq true g (k + 3) f (.map kvs)) = true := by
  rw [encFieldVal_map, encMap_scalars _ _ _ _ _ kvs (fun p hp => (hl p hp).scalar),
    valid_map_scalar _ _ _ _ _ hc hk, List.all_eq_true]
  intro j hj
  obtain ⟨p, hp, rfl⟩ := List.mem_map.mp hj
  exact mapValue_valid rq f comps n p.2 hk h64 hen (hl p hp)

/-- `int64_encoding = NUMBER` on a map field: the documented wire form of a value is a number,
the emitted `additionalProperties` schema (built from the bare value field) is `type: string`. -/
theorem map_int64_number_invalid (rq : Request) (f : Field) (comps : List (Str × Json)) (fuel : Nat)
    (key : Str) (i : Int) (hc : f.card = .map)
    (hk : f.kind = .int64 ∨ f.kind = .sint64 ∨ f.kind = .sfixed64 ∨ f.kind = .uint64 ∨ f.kind = .fixed64)
    (h64 : f.int64Enc = 2) :
    Schema.valid comps fuel (fieldSchema rq f) (Json.obj [(key, scalarJson rq true f (.int i))]) = false := by
  have hkm : f.kind ≠ .message := by rcases hk with h | h | h | h | h <;> simp [h]
  cases fuel with
  | zero => exact valid_zero _ _ _
  | succ n =>
    rw [valid_map_scalar _ _ _ _ _ hc hkm]
    cases n <;> rcases hk with h | h | h | h | h <;>
      simp [scalarSchema, mapValueField, scalarJson, intJson, Kind.isInt64, h, h64]

end closed2

/-! ### nothing undeclared in a `ValidationError` body -/

theorem undeclaredDeep_obj_single (comps : List (Str × Json)) (fuel : Nat) (s : Json) (k : Str) (v : Json)
    (path : Str) (ms : List Json) (hs : anyTrue [s] = false)
    (hms : memberSchemas comps (fuel + 1) s k = ms) (hne : ms ≠ []) :
    undeclaredDeep comps (fuel + 1) [s] (Json.obj [(k, v)]) path =
      undeclaredDeep comps fuel ms v (if path.isEmpty then k else path ++ ('/' :: k)) := by
  rw [undeclaredDeep_obj _ _ _ _ _ hs]
  simp [hms, hne]

theorem undeclaredDeep_arr_single (comps : List (Str × Json)) (fuel : Nat) (s : Json) (l : List Json)
    (path : Str) (is : List Json) (hs : anyTrue [s] = false)
    (his : itemSchemas comps (fuel + 1) s = is) (hne : is ≠ []) :
    undeclaredDeep comps (fuel + 1) [s] (Json.arr l) path =
      l.flatMap fun x => undeclaredDeep comps fuel is x path := by
  rw [undeclaredDeep_arr _ _ _ _ _ hs]
  simp [his, hne]

theorem flatMap_single_ne_nil {α β : Type _} (g : α → List β) (a : α) (x : β) (rest : List β)
    (h : g a = x :: rest) : ([a].flatMap g) ≠ [] := by
  simp [h]

def refFV : Json := Json.obj [("$ref".toList, sStr "#/components/schemas/FieldViolation")]

theorem refName_fv : refName "#/components/schemas/FieldViolation".toList = some "FieldViolation".toList := by
  decide

theorem memberSchemas_ref' (comps : List (Str × Json)) (fuel : Nat) (r name k : Str) (t : Json)
    (hn : refName r = some name) (ht : Json.oget name comps = some t) :
    memberSchemas comps (fuel + 1) (Json.obj [("$ref".toList, Json.str r)]) k = memberSchemas comps fuel t k := by
  apply memberSchemas_via_ref
  · simp [kw, Json.oget, K.properties]
  · simp [kw, Json.oget, K.additionalProperties]
  · simp [refTarget, kw, Json.oget, K.ref, hn, ht]
  · simp [compositionSubs, subSchemasOf, kw, Json.oget, K.allOf, K.oneOf, K.anyOf]

theorem memberSchemas_fv (n : Nat) (k : Str) (x : Json)
    (hk : Json.oget k [("field".toList, typed "string"), ("description".toList, typed "string")] = some x) :
    ∃ rest, memberSchemas builtinComponents (n + 3) refFV k = x :: rest := by
  unfold refFV sStr
  rw [memberSchemas_ref' builtinComponents (n + 2) _ "FieldViolation".toList k fieldViolationSchema refName_fv
    oget_fieldViolation]
  have := memberSchemas_property builtinComponents (n + 1)
    [("type".toList, sStr "object"),
     ("properties".toList, sObj [("field", typed "string"), ("description", typed "string")]),
     ("required".toList, Json.arr [sStr "field", sStr "description"])]
    [("field".toList, typed "string"), ("description".toList, typed "string")] k x
    (by simp [kw, Json.oget, K.properties, sObj]) hk
  simpa [fieldViolationSchema, sObj] using this

theorem violation_undeclared (n : Nat) (v : Str × Str) (path : Str) :
    Schema.undeclaredDeep builtinComponents (n + 3) [refFV] (violationJson v) path = [] := by
  unfold violationJson
  apply undeclaredDeep_obj_nil
  · exact anyTrue_single_obj _ _ _
  · intro m hm
    have hm' : (m = ("field".toList, Json.str v.1)) ∨ (m = ("description".toList, Json.str v.2)) := by
      rcases List.mem_append.mp hm with h | h
      · left
        split at h
        · cases h
        · exact List.mem_singleton.mp h
      · right
        split at h
        · cases h
        · exact List.mem_singleton.mp h
    rcases hm' with rfl | rfl
    · obtain ⟨rest, hr⟩ := memberSchemas_fv n "field".toList (typed "string") (by simp [Json.oget])
      exact ⟨flatMap_single_ne_nil _ _ _ _ hr, rfl, rfl⟩
    · obtain ⟨rest, hr⟩ := memberSchemas_fv n "description".toList (typed "string") (by simp [Json.oget])
      exact ⟨flatMap_single_ne_nil _ _ _ _ hr, rfl, rfl⟩

theorem validationErrorBody_undeclared (n : Nat) (vs : List (Str × Str)) :
    Schema.undeclaredDeep builtinComponents (n + 5) [validationErrorSchema] (validationErrorBody vs) [] = [] := by
  have hs : anyTrue [validationErrorSchema] = false := by simp [validationErrorSchema, sObj, anyTrue]
  by_cases hne : vs = []
  · have : validationErrorBody vs = Json.obj [] := by simp [validationErrorBody, hne]
    rw [this, undeclaredDeep_obj _ _ _ _ _ hs]; rfl
  · have hb : validationErrorBody vs = Json.obj [("violations".toList, Json.arr (vs.map violationJson))] := by
      simp [validationErrorBody, hne]
    let arrS : Json := Json.obj [("type".toList, sStr "array"), ("items".toList, refFV)]
    have hms : memberSchemas builtinComponents (n + 4 + 1) validationErrorSchema "violations".toList = [arrS] := by
      have := memberSchemas_property_plain builtinComponents (n + 4)
        [("type".toList, sStr "object"),
         ("properties".toList, Json.obj [("violations".toList, arrS)]),
         ("required".toList, Json.arr [sStr "violations"])]
        [("violations".toList, arrS)] "violations".toList arrS
        (by simp [kw, Json.oget, K.properties]) (by simp [Json.oget])
        (by simp [refTarget, kw, Json.oget, K.ref])
        (by simp [compositionSubs, subSchemasOf, kw, Json.oget, K.allOf, K.oneOf, K.anyOf])
      simpa [validationErrorSchema, sObj, arrS, refFV, sStr] using this
    have his : itemSchemas builtinComponents (n + 3 + 1) arrS = [refFV] :=
      itemSchemas_plain builtinComponents (n + 3) _ refFV (by simp [kw, Json.oget, K.items])
        (by simp [refTarget, kw, Json.oget, K.ref])
        (by simp [compositionSubs, subSchemasOf, kw, Json.oget, K.allOf, K.oneOf, K.anyOf])
    have ha : anyTrue [arrS] = false := by simp [arrS, anyTrue]
    rw [hb, undeclaredDeep_obj_single _ _ _ _ _ _ _ hs hms (List.cons_ne_nil _ _),
      undeclaredDeep_arr_single _ _ _ _ _ _ ha his (List.cons_ne_nil _ _)]
    rw [List.flatMap_eq_nil_iff]
    intro j hj
    obtain ⟨v, _, rfl⟩ := List.mem_map.mp hj
    exact violation_undeclared n v _

/-! ### flat messages -/

theorem fieldSchema_flat (rq : Request) (f : Field) (h : flatField f = true) :
    fieldSchema rq f = scalarSchema rq f := by
  obtain ⟨hc, hn, he, _, _⟩ := (flatField_iff f).mp h
  rcases hc with hc | hc <;> simp [fieldSchema, hc, hn, he]

/-- the flat fragment of C06's message-level statement. -/
structure FlatMessage (m : Message) : Prop where
  /-- every field is singular (or proto3 optional) without nullable / empty_behavior / flatten / unwrap -/
  fields : ∀ f ∈ m.fields, flatField f = true
  /-- no oneof of the message carries `oneof_config` -/
  oneofs : ∀ o ∈ m.oneofs, o.hasConfig = false
  /-- pairwise distinct JSON names -/
  names : (m.fields.map Field.json).Nodup

theorem flat_valid (rq : Request) (m : Message) (comps : List (Str × Json)) (n k : Nat) (g : Bool)
    (vs : List (Str × Val)) (hm : FlatMessage m)
    (hv : ∀ f ∈ m.fields, ∀ v, vs.lookup f.name = some v → WellKinded rq f v) :
    Schema.valid comps (n + 2) (messageSchema rq m) (encMsg rq true g (k + 3) m vs) = true := by
  rw [encMsg_flat rq g k m vs hm.oneofs hm.fields (fun f hf v hl => (hv f hf v hl).scalar),
    valid_messageSchema_obj, List.all_eq_true]
  intro p hp
  obtain ⟨f, hf, v, hl, rfl⟩ := mem_flatMembers hp
  unfold memberOk
  rw [oget_map_of_nodup Field.json (fieldSchema rq) m.fields hm.names f hf]
  simp only
  rw [fieldSchema_flat rq f (hm.fields f hf)]
  exact scalar_valid rq f comps n v (hv f hf v hl)

theorem flat_undeclared (rq : Request) (m : Message) (comps : List (Str × Json)) (fuel k : Nat) (g : Bool)
    (vs : List (Str × Val)) (hm : FlatMessage m)
    (hv : ∀ f ∈ m.fields, ∀ v, vs.lookup f.name = some v → WellKinded rq f v) :
    Schema.undeclaredDeep comps fuel [messageSchema rq m] (encMsg rq true g (k + 3) m vs) [] = [] := by
  cases fuel with
  | zero => rfl
  | succ n =>
    rw [encMsg_flat rq g k m vs hm.oneofs hm.fields (fun f hf v hl => (hv f hf v hl).scalar)]
    apply undeclaredDeep_obj_nil _ _ _ _ _ (anyTrue_messageSchema rq m)
    intro p hp
    obtain ⟨f, hf, v, hl, rfl⟩ := mem_flatMembers hp
    obtain ⟨kvs, hkvs, hprops⟩ := kw_properties_messageSchema rq m
    obtain ⟨rest, hr⟩ := memberSchemas_property comps n kvs _ f.json (fieldSchema rq f) hprops
      (oget_map_of_nodup Field.json (fieldSchema rq) m.fields hm.names f hf)
    refine ⟨?_, (scalarJson_leaf rq true f v).1, (scalarJson_leaf rq true f v).2⟩
    rw [hkvs]
    simp [hr]

/-! ### the nested (non-flattened) discriminated oneof -/

/-- `buildNestedOneofVariants`, one variant: `{type: object, properties: {<jsonName>: S}}` — no
`required`. -/
def nestedVariantSchema (name : Str) (s : Json) : Json :=
  Json.obj [("type".toList, Json.str "object".toList), ("properties".toList, Json.obj [(name, s)])]

/-- the `oneOf` keyword `buildNestedOneofSchema` attaches: one entry per variant `(jsonName, S)`. -/
def nestedOneofSchema (variants : List (Str × Json)) : Json :=
  Json.obj [("oneOf".toList, Json.arr (variants.map fun v => nestedVariantSchema v.1 v.2))]

/-- the whole component `buildNestedOneofSchema` emits: the common (non-oneof) properties plus the
discriminator property `props`, and the `oneOf` (the `discriminator` keyword is an annotation). -/
def nestedOneofMessageSchema (props variants : List (Str × Json)) : Json :=
  Json.obj [("type".toList, Json.str "object".toList), ("properties".toList, Json.obj props),
    ("oneOf".toList, Json.arr (variants.map fun v => nestedVariantSchema v.1 v.2))]

section closed3
attribute [local simp] Schema.valid objValid leafOk applicatorsOk typeOk enumOk constOk numericOk
  numBoundOk stringOk countOk arrayCountsOk uniqueOk objectCountsOk requiredOk requiredEntryOk refOk itemsOk
  propertiesOk propsOf memberOk allOfOk anyOfOk oneOfOk notOk kw Json.oget typeAccepts
  typeEntryAccepts Json.isStr Json.isNull Json.isBool Json.isObj Json.isArr Json.isNum strLen
  arrLen objLen geB leB
  K.ref K.type K.enum K.const K.minimum K.maximum K.exclusiveMinimum K.exclusiveMaximum K.minLength K.maxLength K.pattern K.items K.minItems K.maxItems K.uniqueItems K.properties K.required K.additionalProperties K.minProperties K.maxProperties K.allOf K.anyOf K.oneOf K.not T.null T.boolean T.object T.array T.number T.integer T.string

/-- a variant schema constrains only the members carrying its own key. -/
theorem valid_nestedVariant (comps : List (Str × Json)) (n : Nat) (name : Str) (s : Json)
    (members : List (Str × Json)) :
    Schema.valid comps (n + 1) (nestedVariantSchema name s) (Json.obj members) =
      members.all (fun m => if name = m.1 then Schema.valid comps n s m.2 else true) := by
  simp [nestedVariantSchema]
  congr 1
  funext m
  by_cases h : name = m.1 <;> simp [h]

/-- the whole component implies its `oneOf` conjunct. -/
theorem nestedOneofMessage_imp (comps : List (Str × Json)) (fuel : Nat) (props variants : List (Str × Json))
    (j : Json) (h : Schema.valid comps fuel (nestedOneofSchema variants) j = false) :
    Schema.valid comps fuel (nestedOneofMessageSchema props variants) j = false := by
  cases fuel with
  | zero => rfl
  | succ n =>
    cases hv : Schema.valid comps (n + 1) (nestedOneofMessageSchema props variants) j with
    | false => rfl
    | true =>
      have : Schema.valid comps (n + 1) (nestedOneofSchema variants) j = true := by
        simp [nestedOneofMessageSchema] at hv
        cases j <;> simp [nestedOneofSchema] <;> simp_all
      rw [h] at this; cases this
end closed3

/-- a variant schema accepts every object that lacks its key. -/
theorem nestedVariant_accepts_absent (comps : List (Str × Json)) (n : Nat) (name : Str) (s : Json)
    (members : List (Str × Json)) (h : Json.oget name members = none) :
    Schema.valid comps (n + 1) (nestedVariantSchema name s) (Json.obj members) = true := by
  rw [valid_nestedVariant, List.all_eq_true]
  intro m hm
  have := (oget_eq_none_iff name members).mp h m hm
  rw [if_neg (fun e => this e.symm)]

/-- **core**: whenever two (or more) variant keys are absent from the object, at least two
variant schemas match and `oneOf` fails — for every fuel. -/
theorem nestedOneof_two_absent (comps : List (Str × Json)) (fuel : Nat) (variants members : List (Str × Json))
    (h : 2 ≤ (variants.filter fun v => (Json.oget v.1 members).isNone).length) :
    Schema.valid comps fuel (nestedOneofSchema variants) (Json.obj members) = false := by
  cases fuel with
  | zero => rfl
  | succ n =>
    unfold nestedOneofSchema
    rw [valid_oneOf, List.filter_map, List.length_map]
    cases n with
    | zero =>
      have : (variants.filter ((fun s => Schema.valid comps 0 s (Json.obj members)) ∘ fun v => nestedVariantSchema v.1 v.2)) = [] := by
        rw [List.filter_eq_nil_iff]; intro v _; simp [valid_zero]
      rw [this]; rfl
    | succ n =>
      have hle := length_filter_le_of_imp (fun v : Str × Json => (Json.oget v.1 members).isNone)
        ((fun s => Schema.valid comps (n + 1) s (Json.obj members)) ∘ fun v => nestedVariantSchema v.1 v.2)
        variants (fun v _ hv => by
          have : Json.oget v.1 members = none := by simpa using hv
          exact nestedVariant_accepts_absent comps n v.1 v.2 members this)
      have : 2 ≤ (variants.filter ((fun s => Schema.valid comps (n + 1) s (Json.obj members)) ∘ fun v => nestedVariantSchema v.1 v.2)).length :=
        Nat.le_trans h hle
      generalize (variants.filter _).length = L at this
      cases hL : (L == 1) with
      | false => rfl
      | true => have : L = 1 := by simpa using hL
                omega

/-- all variants accept a well-formed object (every carried variant key holds a value valid for
that variant): with two or more variants `oneOf` fails. -/
theorem nestedOneof_wellformed (comps : List (Str × Json)) (n : Nat) (variants members : List (Str × Json))
    (h2 : 2 ≤ variants.length)
    (hw : ∀ v ∈ variants, ∀ m ∈ members, m.1 = v.1 → Schema.valid comps n v.2 m.2 = true) :
    Schema.valid comps (n + 2) (nestedOneofSchema variants) (Json.obj members) = false := by
  unfold nestedOneofSchema
  rw [valid_oneOf, List.filter_map, List.length_map]
  have : variants.filter ((fun s => Schema.valid comps (n + 1) s (Json.obj members)) ∘ fun v => nestedVariantSchema v.1 v.2) = variants := by
    apply filter_eq_self_of_all
    intro v hv
    simp only [Function.comp]
    rw [valid_nestedVariant, List.all_eq_true]
    intro m hm
    by_cases e : v.1 = m.1
    · rw [if_pos e]; exact hw v hv m hm e.symm
    · rw [if_neg e]
  rw [this]
  cases hL : (variants.length == 1) with
  | false => rfl
  | true => have : variants.length = 1 := by simpa using hL
            omega

/-- three or more variants with pairwise distinct names, an object carrying at most the key `k`
among them: invalid whatever `k` holds. -/
theorem nestedOneof_three (comps : List (Str × Json)) (fuel : Nat) (variants members : List (Str × Json))
    (k : Str) (h3 : 3 ≤ variants.length) (hn : (variants.map Prod.fst).Nodup)
    (hk : ∀ v ∈ variants, v.1 ≠ k → Json.oget v.1 members = none) :
    Schema.valid comps fuel (nestedOneofSchema variants) (Json.obj members) = false := by
  apply nestedOneof_two_absent
  have h1 := length_filter_key_le_one k variants hn
  have hs := length_filter_split (fun v : Str × Json => v.1 == k) variants
  have hle := length_filter_le_of_imp (fun v : Str × Json => !(v.1 == k))
    (fun v => (Json.oget v.1 members).isNone) variants (fun v hv hne => by
      have : v.1 ≠ k := by simpa using hne
      simp [hk v hv this])
  omega

section closed4
attribute [local simp] Schema.valid objValid leafOk applicatorsOk typeOk enumOk constOk numericOk
  numBoundOk stringOk countOk arrayCountsOk uniqueOk objectCountsOk requiredOk requiredEntryOk refOk itemsOk
  propertiesOk propsOf memberOk allOfOk anyOfOk oneOfOk notOk kw Json.oget typeAccepts
  typeEntryAccepts Json.isStr Json.isNull Json.isBool Json.isObj Json.isArr Json.isNum strLen
  arrLen objLen geB leB
  K.ref K.type K.enum K.const K.minimum K.maximum K.exclusiveMinimum K.exclusiveMaximum K.minLength K.maxLength K.pattern K.items K.minItems K.maxItems K.uniqueItems K.properties K.required K.additionalProperties K.minProperties K.maxProperties K.allOf K.anyOf K.oneOf K.not T.null T.boolean T.object T.array T.number T.integer T.string
  sObj sStr typed typedF zero

/-- a non-empty violation list: the body validates iff every violation object validates against
the `FieldViolation` component (reached through the `$ref`). -/
theorem validationErrorBody_valid_eq (n : Nat) (vs : List (Str × Str)) (hne : vs ≠ []) :
    Schema.valid builtinComponents (n + 5) validationErrorSchema (validationErrorBody vs) =
      vs.all (fun v => Schema.valid builtinComponents (n + 2) fieldViolationSchema (violationJson v)) := by
  have hitems : ∀ v, Schema.valid builtinComponents (n + 3) refFV (violationJson v) =
      Schema.valid builtinComponents (n + 2) fieldViolationSchema (violationJson v) := by
    intro v
    have := valid_ref builtinComponents (n + 2) "FieldViolation".toList (violationJson v)
    rw [oget_fieldViolation] at this
    simp only [refFV, sStr]
    exact this
  have hb : validationErrorBody vs = Json.obj [("violations".toList, Json.arr (vs.map violationJson))] := by
    simp [validationErrorBody, hne]
  have hs : validationErrorSchema = Json.obj [("type".toList, Json.str "object".toList),
      ("properties".toList, Json.obj [("violations".toList,
        Json.obj [("type".toList, Json.str "array".toList), ("items".toList, refFV)])]),
      ("required".toList, Json.arr [Json.str "violations".toList])] := by
    simp [validationErrorSchema, refFV]
  rw [hb, hs]
  generalize refFV = r at hitems ⊢
  simp [-Schema.valid]
  rw [Schema.valid]
  simp [-Schema.valid]
  rw [Schema.valid]
  simp [-Schema.valid]
  congr 1
  funext v
  exact hitems v
end closed4

/-! ### closed witnesses used by the non-vacuity examples of `Props/C06.lean` -/
namespace Witness

def fCount : Field := { name := "count".toList, kind := .int32 }
def fBig : Field := { name := "big_id".toList, kind := .int64 }
def fBigN : Field := { name := "big".toList, kind := .int64, int64Enc := 2 }
def fU32 : Field := { name := "u".toList, kind := .uint32 }
def fU64N : Field := { name := "u".toList, kind := .uint64, int64Enc := 2 }
def fFlag : Field := { name := "flag".toList, kind := .bool }
def fTitle : Field := { name := "title".toList, kind := .string }
def fRatio : Field := { name := "ratio".toList, kind := .double }
def fBlob : Field := { name := "blob".toList, kind := .bytes, bytesEnc := 5 }
def fWhen : Field :=
  { name := "when".toList, kind := .message, typeName := ".google.protobuf.Timestamp".toList, tsFormat := 2 }
/-- `enum Color { COLOR_UNSPECIFIED = 0; COLOR_RED = 1 [(sebuf.http.enum_value) = "red"]; }` -/
def colorEnum : EnumT :=
  { fullName := ".t.Color".toList, hasCustom := true,
    values := [(0, "COLOR_UNSPECIFIED".toList, none), (1, "COLOR_RED".toList, some "red".toList)] }
def fColor : Field := { name := "color".toList, kind := .enum, typeName := ".t.Color".toList }
def fColorN : Field := { name := "color".toList, kind := .enum, typeName := ".t.Color".toList, enumEnc := 2 }
def fTags : Field := { name := "tags".toList, kind := .string, card := .repeated }
def fAttrs : Field := { name := "attrs".toList, kind := .int64, card := .map }
def fAttrsN : Field := { name := "attrs".toList, kind := .int64, card := .map, int64Enc := 2 }
/-- `optional string nick = 1 [(sebuf.http.nullable) = true];` -/
def fNick : Field := { name := "nick".toList, kind := .string, card := .optional, nullable := true }
/-- `optional Color color = 1 [(sebuf.http.nullable) = true];` -/
def fColorNull : Field :=
  { name := "color".toList, kind := .enum, typeName := ".t.Color".toList, card := .optional, nullable := true }
def childMsg : Message := { fullName := ".t.Child".toList, name := "Child".toList, fields := [fCount] }
/-- `Child child = 1 [(sebuf.http.empty_behavior) = EMPTY_BEHAVIOR_NULL];` -/
def fChild : Field :=
  { name := "child".toList, kind := .message, typeName := ".t.Child".toList, emptyBehavior := 2 }
/-- `message Flat { int32 count = 1; int64 big_id = 2; string title = 3; Color color = 4; }` -/
def flatMsg : Message :=
  { fullName := ".t.Flat".toList, name := "Flat".toList, fields := [fCount, fBig, fTitle, fColor] }
def rq : Request :=
  { files := [{ name := "t.proto".toList, messages := [flatMsg, childMsg], enums := [colorEnum] }] }
/-- `{ count: 3, big_id: 9, color: COLOR_RED }` (`title` unset). -/
def flatVal : List (Str × Val) :=
  [("count".toList, .int 3), ("big_id".toList, .int 9), ("color".toList, .enum 1)]
def comps : List (Str × Json) := [("Child".toList, messageSchema rq childMsg)]

theorem findColor : rq.findEnum fColor.typeName = some colorEnum := rfl

theorem color_wellKinded : WellKinded rq fColor (.enum 1) :=
  ⟨rfl, colorEnum, findColor,
    ⟨(1, "COLOR_RED".toList, some "red".toList), List.mem_cons_of_mem _ List.mem_cons_self, rfl⟩, by
    intro v hv
    rcases List.mem_cons.mp hv with rfl | hv
    · intro h; cases h
    · rcases List.mem_cons.mp hv with rfl | hv
      · decide
      · cases hv⟩

theorem flatMsg_flat : FlatMessage flatMsg where
  fields := by decide
  oneofs := by intro o ho; cases ho
  names := by decide

theorem flatVal_wellKinded :
    ∀ f ∈ flatMsg.fields, ∀ v, flatVal.lookup f.name = some v → WellKinded rq f v := by
  intro f hf v hl
  have hf' : f = fCount ∨ f = fBig ∨ f = fTitle ∨ f = fColor := by simpa [flatMsg] using hf
  rcases hf' with rfl | rfl | rfl | rfl
  · have e : flatVal.lookup fCount.name = some (.int 3) := rfl
    rw [e] at hl; cases hl; exact Or.inl (Or.inl rfl)
  · have e : flatVal.lookup fBig.name = some (.int 9) := rfl
    rw [e] at hl; cases hl; exact Or.inl (Or.inr (Or.inr (Or.inr (Or.inl rfl))))
  · have e : flatVal.lookup fTitle.name = none := rfl
    rw [e] at hl; cases hl
  · have e : flatVal.lookup fColor.name = some (.enum 1) := rfl
    rw [e] at hl; cases hl; exact color_wellKinded

/-- what the flat witness looks like on the wire: `{"count":3,"bigId":"9","color":"red"}`. -/
theorem flatVal_wire (g : Bool) (k : Nat) :
    encMsg rq true g (k + 3) flatMsg flatVal =
      Json.obj [("count".toList, Json.num (.int 3)), ("bigId".toList, Json.str (toString (9 : Int)).toList),
        ("color".toList, Json.str "red".toList)] := by
  rw [encMsg_flat rq g k flatMsg flatVal flatMsg_flat.oneofs flatMsg_flat.fields
    (fun f hf v hl => (flatVal_wellKinded f hf v hl).scalar)]
  rfl

/-- two variants of a nested discriminated oneof: `string text` / `int32 count`. -/
def variants : List (Str × Json) :=
  [("text".toList, typed "string"), ("count".toList, typedF "integer" "int32")]

end Witness

end Sebuf.OaSchema
