package protovalidate

import (
	"google.golang.org/protobuf/reflect/protoreflect"
	"google.golang.org/protobuf/types/descriptorpb"
)

func descriptorType(fd protoreflect.FieldDescriptor) descriptorpb.FieldDescriptorProto_Type {
	return descriptorpb.FieldDescriptorProto_Type(fd.Kind())
}
