package props

import (
	"fmt"
	"sort"
	"strings"

	"verif/harness/drv"
	"verif/harness/gen"
	"verif/harness/ir"
	"verif/harness/plug"
	"verif/harness/routes"
)

func init() { Registry["C03"] = C03 }

var verbNum = map[string]int{"": 0, "GET": 1, "POST": 2, "PUT": 3, "DELETE": 4, "PATCH": 5}

// methodDigest is what the Lean route model reads of one RPC (computed from the IR only).
func methodDigest(req *ir.Request, f *ir.File, s *ir.Service, m *ir.Method) map[string]any {
	d := map[string]any{"svc": s.Name, "meth": m.Name, "meth_go": ir.GoCamelCase(m.Name), "go_pkg": f.GoPkgName(),
		"base": s.BasePath, "has_config": m.Config != nil, "path": "", "verb_num": 0, "query_names": []string{}, "query_required": []string{}}
	if m.Config != nil {
		d["path"] = m.Config.Path
		d["verb_num"] = verbNum[m.Config.Method]
	}
	qs, qr := []string{}, []string{}
	if in, _ := req.FindMessage(m.Input); in != nil {
		for _, fl := range in.Fields {
			if fl.Ann.Query != nil {
				n := fl.Ann.Query.Name
				if n == "" {
					n = fl.Name
				}
				qs = append(qs, n)
				if fl.Ann.Query.Required {
					qr = append(qr, n)
				}
			}
		}
	}
	d["query_names"] = qs
	d["query_required"] = qr
	return d
}

var genKeys = []string{"go-http", "go-client", "ts-client", "ts-server", "openapi"}

func routeFromJSON(v any) routes.Route {
	m, _ := v.(map[string]any)
	r := routes.Route{}
	r.Verb, _ = m["verb"].(string)
	r.Template, _ = m["template"].(string)
	r.HasBody, _ = m["has_body"].(bool)
	for _, x := range asList(m["path_vars"]) {
		r.PathVars = append(r.PathVars, fmt.Sprint(x))
	}
	for _, x := range asList(m["query_names"]) {
		r.QueryNames = append(r.QueryNames, fmt.Sprint(x))
	}
	for _, x := range asList(m["query_required"]) {
		r.QueryRequired = append(r.QueryRequired, fmt.Sprint(x))
	}
	return r.Canon()
}

func asList(v any) []any {
	l, _ := v.([]any)
	return l
}

func placementEq(a, b routes.Route) bool {
	x, y := a, b
	x.Verb, y.Verb, x.Template, y.Template = "", "", "", ""
	x.QueryRequired, y.QueryRequired = nil, nil // only the Go server and the OpenAPI document carry the flag
	return x.Canon().Equal(y.Canon())
}

// C03: all five generators agree on each RPC's verb, path and parameter placement.
func C03(c *Ctx) error {
	res := c.Res
	res.Rule = "services generated over base path x config kind x path shape x verb x method-name shape x package naming from one splitmix64 stream; " +
		"a case is one RPC; non-trivial = it has a config, a base path, a path variable or a query field; distinct by (digest of what the generators read)"
	res.Assumptions = append(res.Assumptions, "route facts are read from emitted text with regular expressions (routes package)")
	r := gen.New(c.Seed)
	n := c.N(150, 2500)
	type job struct {
		req  *ir.Request
		main int // index of the analysed file in req.Files
		outs map[string]*plug.Result
		err  error
	}
	jobs := make([]*job, n)
	for i := range jobs {
		o := gen.RouteOpts{SafeOnly: i%3 == 0, TrailingSlash: i%2 == 1, QueryNameClash: i%5 == 2, PathRepeatsBase: i%4 == 1, Streaming: i%7 == 3}
		jobs[i] = &job{req: gen.GenRouteFile(r.Fork(fmt.Sprint("c03-", i)), i, o)}
		if i%6 == 5 {
			// a decoy file of ANOTHER package, generated in the same invocation and processed first, whose
			// service declares RPCs with the same names but other routes: per-RPC state kept across
			// services or files by a generator shows as a wrong route in the analysed file
			mainF := jobs[i].req.Files[0]
			decoy := &ir.File{Name: fmt.Sprintf("decoy%d/decoy.proto", i), Package: "decoy.v1", GoPackage: fmt.Sprintf("example.com/gen/decoy%d;decoypb", i),
				Messages: []*ir.Message{{Name: "DReq", Fields: []*ir.Field{{Name: "zz", Number: 1, Kind: "string"}}}, {Name: "DResp"}}}
			for si, s := range mainF.Services {
				ds := &ir.Service{Name: fmt.Sprintf("Decoy%d", si), BasePath: "/decoy"}
				for mi, m := range s.Methods {
					ds.Methods = append(ds.Methods, &ir.Method{Name: m.Name, Input: ".decoy.v1.DReq", Output: ".decoy.v1.DResp",
						Config: &ir.HTTPConfig{Path: fmt.Sprintf("/d%d/{zz}", mi), Method: []string{"PUT", "PATCH", "POST"}[mi%3]}})
				}
				decoy.Services = append(decoy.Services, ds)
			}
			jobs[i].req.Files = append([]*ir.File{decoy}, jobs[i].req.Files...)
			jobs[i].req.Generate = append([]string{decoy.Name}, jobs[i].req.Generate...)
			jobs[i].main = 1
		}
	}
	for i := range jobs {
		if i%6 != 2 {
			continue
		}
		// a messages-only file of the same package, generated in the same invocation and processed FIRST (the
		// service file imports it): a generator that stops at a file without services publishes no route at all
		mainF := jobs[i].req.Files[0]
		types := &ir.File{Name: fmt.Sprintf("types%d/common.proto", i), Package: "common.v1", GoPackage: fmt.Sprintf("example.com/gen/common%d;commonpb", i),
			Messages: []*ir.Message{{Name: "Money", Fields: []*ir.Field{{Name: "units", Number: 1, Kind: "int64"}, {Name: "currency", Number: 2, Kind: "string"}}}}}
		mainF.Deps = append(mainF.Deps, types.Name)
		jobs[i].req.Files = append([]*ir.File{types}, jobs[i].req.Files...)
		jobs[i].req.Generate = append([]string{types.Name}, jobs[i].req.Generate...)
		jobs[i].main = 1
	}
	parallel(n, func(i int) { jobs[i].outs, jobs[i].err = runAll(jobs[i].req) })
	// driver batch
	var dops []map[string]any
	for _, j := range jobs {
		f := j.req.Files[j.main]
		for _, s := range f.Services {
			var ms []any
			for _, m := range s.Methods {
				ms = append(ms, methodDigest(j.req, f, s, m))
			}
			dops = append(dops, map[string]any{"op": "route_svc", "ms": ms})
		}
	}
	var douts []map[string]any
	if drv.Available() {
		var err error
		douts, err = drv.Run(dops)
		if err != nil {
			res.Corr("driver", "Lean driver failed: "+err.Error(), nil)
			douts = nil
		}
	} else {
		res.Corr("driver", "Lean driver binary missing (model did not build)", nil)
	}
	di := 0
	for _, j := range jobs {
		if j.err != nil {
			return j.err
		}
		f := j.req.Files[j.main]
		refused := false
		for _, p := range plug.All {
			if !j.outs[p].OK() {
				refused = true
				res.Count("refused:" + p)
			}
		}
		if refused {
			// the valid stream is built to be accepted by all five; a refusal is C12's subject,
			// but it also means no route can be compared.
			res.Violation("refused", "a generator refused a definition built to be valid: "+refusals(j.outs), map[string]any{"schema": j.req})
			di += len(f.Services)
			continue
		}
		tabs := map[string]routes.Table{}
		var exErr error
		var t routes.Table
		if t, exErr = routes.GoHTTP(f, j.outs[plug.GoHTTP]); exErr == nil {
			tabs["go-http"] = t
		}
		if exErr == nil {
			if t, exErr = routes.GoClient(f, j.outs[plug.GoClient]); exErr == nil {
				tabs["go-client"] = t
			}
		}
		if exErr == nil {
			if t, exErr = routes.TSClient(f, j.outs[plug.TSClient]); exErr == nil {
				tabs["ts-client"] = t
			}
		}
		if exErr == nil {
			if t, exErr = routes.TSServer(f, j.outs[plug.TSServer]); exErr == nil {
				tabs["ts-server"] = t
			}
		}
		var counts map[string]int
		if exErr == nil {
			if t, counts, exErr = routes.OpenAPI(f, j.outs[plug.OpenAPI]); exErr == nil {
				tabs["openapi"] = t
			}
		}
		if exErr != nil && strings.HasPrefix(exErr.Error(), "no _") && strings.HasSuffix(exErr.Error(), " emitted") && len(f.Services) > 0 {
			// a generator answered without an error and without the file that carries this file's routes: every RPC of the
			// file is an RPC one of the five artefacts has no route for
			var rpcs []string
			for _, sv := range f.Services {
				for _, m := range sv.Methods {
					rpcs = append(rpcs, sv.Name+"."+m.Name)
				}
			}
			res.Violation("artefact_missing", fmt.Sprintf("%s for %s although the plugin answered without an error: RPCs %v have no route in that artefact while the other generators publish one", exErr.Error(), f.Name, rpcs), map[string]any{"schema": j.req, "file": f.Name})
		}
		if exErr != nil {
			res.Corr("extract", "route facts could not be read from emitted output: "+exErr.Error(), map[string]any{"schema": j.req})
			di += len(f.Services)
			continue
		}
		for _, s := range f.Services {
			var dout map[string]any
			if douts != nil {
				dout = douts[di]
			}
			di++
			var dm []any
			if dout != nil {
				dm = asList(dout["methods"])
			}
			// one document per service
			for mi, m := range s.Methods {
				key := s.Name + "." + m.Name
				dig := methodDigest(j.req, f, s, m)
				nontrivial := m.Config != nil || s.BasePath != "" || len(dig["query_names"].([]string)) > 0
				res.Case(dig, nontrivial)
				if m.Config == nil {
					res.Count("config:absent")
				} else {
					res.Count("config:verb=" + m.Config.Method)
					if m.Config.Path == "" {
						res.Count("config:no_path")
					}
				}
				res.Count("base:" + s.BasePath)
				real := map[string]routes.Route{}
				missing := ""
				for _, g := range genKeys {
					rt, ok := tabs[g][key]
					if !ok {
						missing = g
					}
					real[g] = rt
				}
				// the TS server reads each path variable from a FIXED segment of the request path: that segment is where the
				// variable's placeholder stands in the published template — not where a literal of the same spelling stands
				if ts, ok := tabs["ts-server"][key]; ok && len(ts.SegIndex) > 0 {
					segs := strings.Split(ts.Template, "/")
					for _, v := range ts.PathVars {
						want := -1
						for si, sg := range segs {
							if sg == "{"+v+"}" {
								want = si
								break
							}
						}
						if got, ok := ts.SegIndex[v]; ok && want >= 0 && got != want {
							res.Violation("ts_server_segment_index", fmt.Sprintf("%s: the TS server reads {%s} from segment %d of the path; in its published template %q the placeholder is segment %d (%q stands at %d)", key, v, got, ts.Template, want, segs[min(got, len(segs)-1)], got),
								map[string]any{"schema": j.req, "rpc": key, "template": ts.Template, "variable": v, "read_from": got, "placeholder_at": want})
						}
					}
				}
				// ---- correspondence: real == Impl for each generator ----
				implAgrees := false
				var implRoutes map[string]routes.Route
				explicitOK, placementOK := false, false
				if dm != nil && mi < len(dm) {
					mm, _ := dm[mi].(map[string]any)
					rs, _ := mm["routes"].(map[string]any)
					explicitOK, _ = mm["explicit_path_ok"].(bool)
					placementOK, _ = mm["placement_ok"].(bool)
					implRoutes = map[string]routes.Route{}
					implAgrees = true
					for _, g := range genKeys {
						implRoutes[g] = routeFromJSON(rs[g])
						if g == "openapi" && missing == "openapi" {
							continue // overwritten operation: judged by the op list below
						}
						if !implRoutes[g].Equal(real[g]) {
							implAgrees = false
							res.Corr("route:"+g, fmt.Sprintf("%s: %s route differs from the model: real %+v, model %+v", key, g, real[g], implRoutes[g]),
								map[string]any{"schema": j.req, "rpc": key, "generator": g, "real": real[g], "impl": implRoutes[g]})
						}
					}
					if implAgrees {
						res.CorrAgree()
					}
				}
				// ---- oracle: the five real artefacts agree with each other ----
				replay := map[string]any{"schema": j.req, "rpc": key, "real": real, "impl": implRoutes}
				if missing != "" && missing != "openapi" {
					res.Violation("missing:"+missing, key+": no route found in "+missing+" output", replay)
					continue
				}
				ref := real["go-http"]
				verbsOK, pathsOK, placeOK := true, true, true
				for _, g := range genKeys[1:] {
					if g == "openapi" && missing == "openapi" {
						continue
					}
					if real[g].Verb != ref.Verb {
						verbsOK = false
					}
					if real[g].Template != ref.Template {
						pathsOK = false
					}
					if !placementEq(real[g], ref) {
						placeOK = false
					}
				}
				if !verbsOK {
					res.Violation("verbs", key+": generators disagree on the HTTP verb", replay)
				}
				if !pathsOK {
					if explicitOK {
						res.Violation("paths", key+": generators disagree on the path template although the RPC has an explicit path", replay)
					} else {
						res.Divergence("paths:no_explicit_path_or_leading_slash", key+": generators disagree on the path template", implAgrees, replay)
					}
				}
				if !placeOK {
					if placementOK {
						res.Violation("placement", key+": generators disagree on parameter placement", replay)
					} else {
						res.Divergence("placement:query_field_on_body_verb", key+": generators disagree on parameter placement", implAgrees, replay)
					}
				}
				// the published contract marks as required exactly the query parameters the Go server requires
				if missing != "openapi" && strings.Join(real["openapi"].QueryRequired, "\x00") != strings.Join(ref.QueryRequired, "\x00") {
					res.Violation("required", fmt.Sprintf("%s: the OpenAPI document marks %v as required query parameters, the Go server requires %v", key, real["openapi"].QueryRequired, ref.QueryRequired), replay)
				}
				if len(ref.QueryRequired) > 0 {
					res.Count("query:some_required")
					if len(ref.QueryRequired) < len(ref.QueryNames) {
						res.Count("query:mixed_required_optional")
					}
				}
				// exactly one operation per RPC
				cnt := counts[key]
				if cnt != 1 {
					nodup, _ := dout["keys_nodup"].(bool)
					implHas := false
					for _, o := range asList(dout["oa_ops"]) {
						if o == m.Name {
							implHas = true
						}
					}
					if dout != nil && !nodup && implHas == (cnt == 1) {
						res.Divergence("one_operation:duplicate_openapi_path_and_verb", fmt.Sprintf("%s: %d operations in the OpenAPI document", key, cnt), true, replay)
					} else {
						res.Violation("one_operation", fmt.Sprintf("%s: %d operations in the OpenAPI document", key, cnt), replay)
					}
				}
			}
			// model's operation list vs the document's
			if dout != nil {
				var realOps []string
				for _, m := range s.Methods {
					for i := 0; i < counts[s.Name+"."+m.Name]; i++ {
						realOps = append(realOps, m.Name)
					}
				}
				var implOps []string
				for _, o := range asList(dout["oa_ops"]) {
					implOps = append(implOps, fmt.Sprint(o))
				}
				sort.Strings(realOps)
				sort.Strings(implOps)
				if fmt.Sprint(realOps) != fmt.Sprint(implOps) {
					res.Corr("oa_ops", fmt.Sprintf("service %s: operations in the document %v differ from the model's %v", s.Name, realOps, implOps), map[string]any{"schema": j.req})
				}
			}
		}
	}
	res.Programs = n
	return nil
}

func refusals(outs map[string]*plug.Result) string {
	s := ""
	for _, p := range plug.All {
		if !outs[p].OK() {
			s += p + ": " + errText(outs[p]) + "; "
		}
	}
	return s
}
