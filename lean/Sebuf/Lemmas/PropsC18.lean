import Sebuf.OaEmit
import Sebuf.Route
/-!
Helper lemmas for `Sebuf.Props.C18`: injectivity of the document name and the path-variable
extraction through `BuildHTTPPath`'s slash handling. The property theorems are in
`Sebuf/Props/C18.lean`.
-/
namespace Sebuf.C18
open Sebuf Sebuf.OaEmit

theorem docName_injective (param : Option String) (a b : String) (h : docName param a = docName param b) : a = b := by
  unfold docName at h
  have h' := congrArg String.toList h
  simp only [String.toList_append] at h'
  have := List.append_cancel_right (List.append_cancel_right h')
  exact String.toList_inj.mp this

theorem aux_none_append (x y : Str) (h : '{' ∉ x) :
    extractPathParamsAux none (x ++ y) = extractPathParamsAux none y := by
  induction x with
  | nil => rfl
  | cons c t ih =>
    have hc : c ≠ '{' := fun e => h (e ▸ List.mem_cons_self)
    have ht : '{' ∉ t := fun m => h (List.mem_cons_of_mem _ m)
    simp only [List.cons_append, extractPathParamsAux, hc, if_false]
    exact ih ht

theorem mem_trimSuffixSlash (x : Str) (c : Char) (h : c ∈ trimSuffixSlash x) : c ∈ x := by
  unfold trimSuffixSlash at h
  split at h
  · exact List.dropLast_subset _ h
  · exact h

theorem mem_ensureLeadingSlash (x : Str) (c : Char) (hc : c ≠ '/') (h : c ∈ ensureLeadingSlash x) : c ∈ x := by
  unfold ensureLeadingSlash at h
  split at h
  · simp at h; exact absurd h hc
  · exact h
  · rcases List.mem_cons.mp h with h | h
    · exact absurd h hc
    · exact h

theorem extract_trimPrefixSlash (p : Str) : extractPathParams (trimPrefixSlash p) = extractPathParams p := by
  unfold trimPrefixSlash extractPathParams
  split
  · simp [extractPathParamsAux]
  · rfl

theorem extract_ensureLeadingSlash (p : Str) : extractPathParams (ensureLeadingSlash p) = extractPathParams p := by
  unfold ensureLeadingSlash extractPathParams
  split
  · simp [extractPathParamsAux]
  · rfl
  · simp [extractPathParamsAux]

/-- `BuildHTTPPath(base, path)` has the variables of `path` when `base` holds none. -/
theorem extract_buildHTTPPath (sp mp : Str) (h : '{' ∉ sp) :
    extractPathParams (buildHTTPPath sp mp) = extractPathParams mp := by
  unfold buildHTTPPath
  split
  · rename_i h0; rw [h0.2]; simp [extractPathParams, extractPathParamsAux]
  · split
    · exact extract_ensureLeadingSlash mp
    · split
      · rename_i hm
        rw [hm, extract_ensureLeadingSlash]
        have : extractPathParamsAux none (sp ++ []) = extractPathParamsAux none [] := aux_none_append sp [] h
        simpa [extractPathParams] using this
      · have hno : '{' ∉ trimSuffixSlash (ensureLeadingSlash sp) := by
          intro hm
          exact h (mem_ensureLeadingSlash sp '{' (by decide) (mem_trimSuffixSlash _ _ hm))
        unfold extractPathParams
        rw [aux_none_append _ _ hno]
        simp only [extractPathParamsAux, show ('/' : Char) ≠ '{' by decide, if_false]
        exact extract_trimPrefixSlash mp


/-- a list without repetition is its own `uniqueFirst`. -/
theorem uniqueFirst_of_nodup : ∀ (l : List Str), l.Nodup → uniqueFirst l = l
  | [], _ => rfl
  | x :: xs, h => by
    have hx : x ∉ xs := (List.nodup_cons.mp h).1
    have hxs := (List.nodup_cons.mp h).2
    unfold uniqueFirst
    rw [uniqueFirst_of_nodup xs hxs]
    congr 1
    apply List.filter_eq_self.mpr
    intro y hy
    have : y ≠ x := fun e => hx (e ▸ hy)
    simp [this]

/-- `uniqueFirst` never repeats a name. -/
theorem uniqueFirst_nodup : ∀ (l : List Str), (uniqueFirst l).Nodup
  | [] => List.nodup_nil
  | x :: xs => by
    unfold uniqueFirst
    refine List.nodup_cons.mpr ⟨?_, (uniqueFirst_nodup xs).filter _⟩
    intro h
    have := (List.mem_filter.mp h).2
    simp at this

/-- `uniqueFirst` keeps exactly the names of the list. -/
theorem mem_uniqueFirst : ∀ (l : List Str) (a : Str), a ∈ uniqueFirst l ↔ a ∈ l
  | [], a => by simp [uniqueFirst]
  | x :: xs, a => by
    unfold uniqueFirst
    by_cases h : a = x
    · subst h; simp
    · simp [List.mem_filter, mem_uniqueFirst xs a, h]

end Sebuf.C18
