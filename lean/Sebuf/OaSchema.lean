import Sebuf.Schema
import Sebuf.Json
import Sebuf.OaComp
/-!
`Impl`: the component schema `protoc-gen-openapiv3` emits for a message
(`internal/openapiv3/types.go` `convertScalarField` / `convertField` / `convertMapField`,
`generator.go` `buildObjectSchema`), as the parsed document shows it — `description`,
`example(s)` and validation keywords left out. Modelled: plain object messages with every
field-level annotation; NOT modelled (oracle only): root unwrap, flatten and discriminated oneof
layouts, custom enum / discriminator strings that YAML re-types.
-/
namespace Sebuf.OaSchema
open Sebuf

def sObj (kvs : List (String × Json)) : Json := Json.obj (kvs.map fun p => (p.1.toList, p.2))
def sStr (s : String) : Json := Json.str s.toList
def typed (t : String) : Json := sObj [("type", sStr t)]
def typedF (t f : String) : Json := sObj [("type", sStr t), ("format", sStr f)]
def zero : Json := Json.num (JNum.int 0)

def shortName (full : Str) : Str := ((splitOnChar '.' full).getLast?).getD []

def refTo (full : Str) : Json :=
  Json.obj [("$ref".toList, Json.str ("#/components/schemas/".toList ++ shortName full))]

def enumSchema (rq : Request) (f : Field) : Json :=
  match rq.findEnum f.typeName with
  | none => typed "string"
  | some e =>
    if f.enumEnc == 2 then
      sObj [("type", sStr "integer"), ("enum", Json.arr (e.values.map fun v => Json.num (JNum.int v.1)))]
    else
      sObj [("type", sStr "string"), ("enum", Json.arr (e.values.map fun v =>
        match v.2.2 with
        | some c => if c == [] then Json.str v.2.1 else Json.str c
        | none => Json.str v.2.1))]

def timestampSchema (f : Field) : Json :=
  match f.tsFormat with
  | 2 => typedF "integer" "unix-timestamp"
  | 3 => typedF "integer" "unix-timestamp-ms"
  | 4 => typedF "string" "date"
  | _ => typedF "string" "date-time"

def bytesSchema (f : Field) : Json :=
  match f.bytesEnc with
  | 5 => sObj [("type", sStr "string"), ("format", sStr "hex"), ("pattern", sStr "^[0-9a-fA-F]*$")]
  | 3 => typedF "string" "base64url"
  | 4 => typedF "string" "base64url"
  | _ => typedF "string" "byte"

/-- `convertScalarField`: the schema of one element of the field. -/
def scalarSchema (rq : Request) (f : Field) : Json :=
  match f.kind with
  | .bool => typed "boolean"
  | .int32 | .sint32 | .sfixed32 => typedF "integer" "int32"
  | .int64 | .sint64 | .sfixed64 => if f.int64Enc == 2 then typedF "integer" "int64" else typedF "string" "int64"
  | .uint32 | .fixed32 => sObj [("type", sStr "integer"), ("format", sStr "int32"), ("minimum", zero)]
  | .uint64 | .fixed64 =>
    if f.int64Enc == 2 then sObj [("type", sStr "integer"), ("format", sStr "uint64"), ("minimum", zero)]
    else typedF "string" "uint64"
  | .float => typedF "number" "float"
  | .double => typedF "number" "double"
  | .string => typed "string"
  | .bytes => bytesSchema f
  | .enum => enumSchema rq f
  | .message => if isTimestampName f.typeName then timestampSchema f else refTo f.typeName

/-- the synthetic `value` field of a map entry carries none of the map field's annotations. -/
def mapValueField (f : Field) : Field :=
  { name := "value".toList, kind := f.kind, typeName := f.typeName }

/-- `makeNullableSchema`: `"null"` appended to the `type` (a `$ref` has none and is left alone). -/
def makeNullable : Json → Json
  | .obj kvs =>
    (match Json.oget "type".toList kvs with
     | some (.str t) => Json.obj (Json.oset "type".toList (Json.arr [Json.str t, sStr "null"]) kvs)
     | _ => Json.obj kvs)
  | j => j

/-- `convertField`. -/
def fieldSchema (rq : Request) (f : Field) : Json :=
  match f.card with
  | .repeated => sObj [("type", sStr "array"), ("items", scalarSchema rq f)]
  | .map =>
    let vf := mapValueField f
    let ap := if f.kind == .message then
        (match rq.findMessage f.typeName with
         | some vm => (match vm.fields.find? (fun u => u.unwrap && u.card == .repeated) with
            | some u => sObj [("type", sStr "array"), ("items", scalarSchema rq u)]
            | none => scalarSchema rq vf)
         | none => scalarSchema rq vf)
      else scalarSchema rq vf
    sObj [("type", sStr "object"), ("additionalProperties", ap)]
  | _ =>
    let s := scalarSchema rq f
    if f.nullable then makeNullable s
    else if f.kind == .message && f.emptyBehavior == 2 then sObj [("oneOf", Json.arr [s, typed "null"])]
    else s

def modelled (m : Message) : Bool :=
  !(OaComp.isRootUnwrap m) && !(m.fields.any (·.flatten)) && !(m.oneofs.any (·.hasConfig))

/-- `buildObjectSchema` for a plain object message (without `required`). -/
def messageSchema (rq : Request) (m : Message) : Json :=
  sObj [("type", sStr "object")] |> fun base =>
    match base with
    | .obj kvs => Json.obj (kvs ++ [("properties".toList, Json.obj (m.fields.map fun f => (f.json, fieldSchema rq f)))])
    | j => j

/-! ### built-in error schemas (`addBuiltinErrorSchemas`) -/

def errorSchema : Json :=
  sObj [("type", sStr "object"), ("properties", sObj [("message", typed "string")])]

def fieldViolationSchema : Json :=
  sObj [("type", sStr "object"), ("properties", sObj [("field", typed "string"), ("description", typed "string")]),
        ("required", Json.arr [sStr "field", sStr "description"])]

def validationErrorSchema : Json :=
  sObj [("type", sStr "object"),
        ("properties", sObj [("violations", sObj [("type", sStr "array"),
          ("items", Json.obj [("$ref".toList, sStr "#/components/schemas/FieldViolation")])])]),
        ("required", Json.arr [sStr "violations"])]

def builtinComponents : List (Str × Json) :=
  [("Error".toList, errorSchema), ("FieldViolation".toList, fieldViolationSchema), ("ValidationError".toList, validationErrorSchema)]

/-- the JSON bodies the generated server writes for its own errors. -/
def errorBody (msg : Str) : Json := Json.obj (if msg == [] then [] else [("message".toList, Json.str msg)])

def violationJson (v : Str × Str) : Json :=
  Json.obj ((if v.1 == [] then [] else [("field".toList, Json.str v.1)]) ++ (if v.2 == [] then [] else [("description".toList, Json.str v.2)]))

def validationErrorBody (vs : List (Str × Str)) : Json :=
  Json.obj (if vs == [] then [] else [("violations".toList, Json.arr (vs.map violationJson))])

end Sebuf.OaSchema
