import Sebuf.Lemmas.Mock
import Sebuf.Lemmas.Traverse
import Sebuf.Gen.Mock
/-!
# C20 — the optional mock server builds and answers with contract-conformant examples

`Sebuf.Mock` is the model: `Impl` = the emitted `fieldExamples` table as the Go compiler reads it
(`tableLine`, `exampleTable`), the Go typing of every emitted assignment (`msgDefects`), and the
value a mock RPC returns with every random draw explicit (`mockMsg`); `Spec` = `wt` (the generated
server can serialise the value), `Schema.valid` of its wire JSON against the published response
schema, `dishonoured = []` (a field that declares examples holds one of them, parsed to its type).

The property fails today in many classes; what is provable is stated `_partial`, every failing
class has a kernel-checked witness (`w_…`) that is also replayed on the real plugin, compiler and
server by the harness (`harness/props/c20.go`). The per-kind tables the model transcribes are
regenerated from `mock_generator.go` on every run (`Gen.Mock`) and compared here (`tables_…`).
-/
namespace Sebuf.C20
open Sebuf Sebuf.Mapping Sebuf.Mock

/-! ## The tie: the model's tables are the source's tables -/

def allKinds : List Kind :=
  [.double, .float, .int64, .uint64, .int32, .fixed64, .fixed32, .bool, .string, .message, .bytes, .uint32, .enum,
   .sfixed32, .sfixed64, .sint32, .sint64]

def look (t : List (String × String)) (d : String) (k : Kind) : String := (t.lookup k.name).getD d

/-- `generateMockFieldAssignments`: the action the model takes per kind is the case the source has. -/
theorem tables_assign : ∀ k ∈ allKinds, (actionOf k).name = look Gen.Mock.assign Gen.Mock.assignDefault k := by decide

/-- the message case is: map → sample entry, list → nothing, type on the current path → nothing,
otherwise allocate and recurse;
and no other place of the file consults cardinality, presence or oneof membership. -/
theorem tables_message_cases :
    Gen.Mock.messageCases = [("field.Desc.IsMap()", "map"), ("field.Desc.IsList()", "todo"),
      ("visiting[string(field.Message.Desc.FullName())]", "comment_only"), ("default", "alloc_recurse")] ∧
    Gen.Mock.cardinalityMentions = [("IsList", 1), ("IsMap", 1)] := by decide

/-- the selectors: Go return type, parse call, and "pick, parse, else default" control flow. -/
theorem tables_selectors :
    Gen.Mock.selectors =
      [("selectStringExample", "string", "identity", "pick_or_generate"),
       ("selectIntExample", "int64", "strconv.ParseInt(example, 10, 64)", "pick_parse_or_default"),
       ("selectBoolExample", "bool", "strconv.ParseBool(example)", "pick_parse_or_default"),
       ("selectFloatExample", "float64", "strconv.ParseFloat(example, 64)", "pick_parse_or_default")] ∧
    (∀ a ∈ [Action.selString, .selInt, .selBool, .selFloat],
      (Gen.Mock.selectors.lookup a.name).map (·.1) = some a.retTy) := by decide

/-- `getDefaultValue`, `getSampleMapKey`, `getGoTypeScalar` as transcribed. -/
theorem tables_helpers : ∀ k ∈ allKinds,
    defaultLit k = look Gen.Mock.defaultValue Gen.Mock.defaultValueDefault k ∧
    (k ≠ .message → emittedScalarTy k = look Gen.Mock.goTypeScalar Gen.Mock.goTypeScalarDefault k) := by decide

theorem tables_sample_key :
    Gen.Mock.sampleKey.lookup "string" = some "\"sample_key\"" ∧ Gen.Mock.sampleKey.lookup "bool" = some "true" ∧
    (∀ k ∈ ["int32", "int64", "sint32", "sint64", "sfixed32", "sfixed64", "uint32", "uint64", "fixed32", "fixed64"],
      Gen.Mock.sampleKey.lookup k = some "1") := by decide

/-- the default string generators: the substring tests in source order and what each returns. -/
theorem tables_generators :
    Gen.Mock.defaultGen = [("id", "generateUUID"), ("email", "generateEmail"), ("name", "generateName"),
      ("phone", "generatePhone"), ("address", "generateAddress"), ("url", "generateURL")] ∧
    Gen.Mock.defaultGenFallback = "generateString" ∧ Gen.Mock.defaultGenLowersName = true ∧
    Gen.Mock.generators = [("generateEmail", ["user@example.com"]), ("generateName", genNames),
      ("generatePhone", ["+1-555-0123"]), ("generateAddress", ["123 Main Street, Anytown, USA"]),
      ("generateURL", ["https://example.com"]), ("generateString", ["example string"])] :=
  ⟨rfl, rfl, rfl, rfl⟩

/-- `generateUUID`: 16 random bytes, version and variant bits forced, five `%x` groups. -/
theorem tables_uuid :
    Gen.Mock.uuidBody = "{ var b [16]byte _, err := cryptorand.Read(b[:]) if err != nil { return \"550e8400-e29b-41d4-a716-446655440000\" } b[6] = (b[6] & 0x0f) | 0x40 b[8] = (b[8] & 0x3f) | 0x80 return fmt.Sprintf(\"%x-%x-%x-%x-%x\", b[0:4], b[4:6], b[6:8], b[8:10], b[10:16]) }" :=
  rfl

/-- table keys: written by nested path, looked up by SHORT message name; examples pasted between quotes. -/
theorem tables_keys :
    Gen.Mock.collectPathExpr = "prefix + string(message.Desc.Name())" ∧
    Gen.Mock.collectNestedCall = "nested | messagePath + \".\"" ∧
    Gen.Mock.collectKeyExpr = "messagePath + \".\" + string(field.Desc.Name())" ∧
    Gen.Mock.collectRoots = "file.Messages" ∧
    Gen.Mock.assignMsgNameExpr = "string(message.Desc.Name())" ∧
    Gen.Mock.assignKeyExpr = "messageName + \".\" + string(field.Desc.Name())" ∧
    Gen.Mock.tableLines = ["`\"` , fieldPath , `\": {`", "`\"` , example , `\",`", "\"},\""] := by decide

/-- the map emitter as transcribed. -/
theorem tables_map_emitter :
    (Gen.Mock.mapValueIsMessageTest && Gen.Mock.mapKeyFromSampleKey && Gen.Mock.mapKeyTypeFromScalar &&
     Gen.Mock.mapValueTypeFromScalar && Gen.Mock.mapScalarValueFromDefault && Gen.Mock.mapMessageValueRecurses &&
     Gen.Mock.mapMessageValueGuarded) = true := by decide

/-- the recursion guard (since b58be88): a set keyed by full message name that starts empty at the
response type, is entered on entry and left on return (so it holds exactly the current path), is
handed to every recursive call, and is consulted before a singular child or a map value is filled. -/
theorem tables_recursion_guard :
    (Gen.Mock.visitingStartsEmpty && Gen.Mock.visitingKeyIsFullName && Gen.Mock.visitingEnteredOnEntry &&
     Gen.Mock.visitingLeftOnReturn && Gen.Mock.visitingPassedDown && Gen.Mock.visitingPassedToMap) = true := by decide

/-! ## What holds -/

/-- **serialisable, partial** (the logical core of "builds" and "the server can serialise"): when
every emitted assignment type-checks and the example table holds valid text, the value a mock RPC
returns — for every schema, every depth and every outcome of the random draws — inhabits the
response type. -/
theorem mock_wellTyped_partial (rq : Request) (env : Env) (hc : CleanTable env.tbl) (fuel : Nat) (path : List Str) (site : Str)
    (m : Message) (hb : msgDefects rq fuel path m = []) : wt rq fuel m (mockMsg rq env fuel path site m) = true :=
  wt_mockMsg rq env hc fuel path site m hb

/-- which fields the emitted assignments type-check for: singular, non-oneof string / int64 / bool /
double fields, and every kind the emitter skips. -/
def SimpleField (f : Field) : Prop :=
  f.card ≠ .map ∧ (actionOf f.kind = .todo ∨
    ((f.kind = .string ∨ f.kind = .int64 ∨ f.kind = .bool ∨ f.kind = .double) ∧ f.card = .singular ∧ f.oneof = none))

theorem assign_typing_partial (rq : Request) (fuel : Nat) (path : List Str) (m : Message) (h : ∀ f ∈ m.fields, SimpleField f) :
    msgDefects rq (fuel + 1) path m = [] := by
  unfold msgDefects
  rw [List.flatMap_eq_nil_iff]
  intro f hf
  obtain ⟨hm, hk⟩ := h f hf
  unfold stmtDefects
  have hm' : (f.card == Card.map) = false := by simpa using hm
  simp only [hm', Bool.false_eq_true, if_false]
  rcases hk with ht | ⟨hk, hc, ho⟩
  · simp [ht]
  · rcases hk with hk | hk | hk | hk <;> simp [hk, hc, ho, actionOf, Action.retTy, goScalar]

/-- a declared example without `"`, `\`, newline, NUL or BOM reaches the table unchanged. -/
theorem plain_example_pasted_faithfully (ex : Str) (h : plain ex = true) : tableLine ex = .entries [some ex] :=
  tableLine_plain ex h

/-- **takes an example** (string): when the table has an entry for the key the assignment uses, the
field takes one of its values, whatever the draw. -/
theorem takes_example_string (env : Env) (site key fname : Str) (e : Option Str) (es : List (Option Str))
    (h : env.tbl.get key = e :: es) : selString env site key fname ∈ e :: es := by
  unfold selString
  rw [h]
  simp only
  obtain ⟨x, hx⟩ := nth?_isSome (e :: es) (env.pick site) (by simp)
  unfold pickOf
  rw [hx]
  exact nth?_mem _ _ _ hx

/-- **takes an example** (int64): when every value of the entry parses, the field holds the parse of one of them. -/
theorem takes_example_parsed (env : Env) (site key : Str) (e : Option Str) (es : List (Option Str))
    (h : env.tbl.get key = e :: es) (hp : ∀ x ∈ e :: es, (x.bind parseInt).isSome = true) :
    ∃ x ∈ e :: es, x.bind parseInt = some (selInt env site key) := by
  unfold selInt
  rw [h]
  simp only
  obtain ⟨x, hx⟩ := nth?_isSome (e :: es) (env.pick site) (by simp)
  have hm := nth?_mem _ _ _ hx
  refine ⟨x, hm, ?_⟩
  unfold pickOf
  rw [hx]
  have := hp x hm
  cases hb : x.bind parseInt with
  | none => simp [hb] at this
  | some v => simp [Option.getD, hb]

/-- **unparsable example**: when the drawn value does not parse, the field silently takes the
selector's default (42) — it holds none of the declared examples unless 42 is one. -/
theorem unparsable_example_falls_back_to_default (env : Env) (site key : Str) (e : Option Str) (es : List (Option Str))
    (h : env.tbl.get key = e :: es) (x : Option Str) (hx : pickOf env site (e :: es) = some x) (hp : x.bind parseInt = none) :
    selInt env site key = 42 := by
  unfold selInt
  rw [h]
  simp only [hx, Option.getD, hp]

/-- the same for bool (`true`) and double (`3.14`). -/
theorem unparsable_example_falls_back_bool_float (env : Env) (site key : Str) (e : Option Str) (es : List (Option Str))
    (h : env.tbl.get key = e :: es) (x : Option Str) (hx : pickOf env site (e :: es) = some x) :
    (x.bind parseBool = none → selBool env site key = true) ∧
    ((x.bind fun s => env.floats.lookup s) = none → selFloat env site key = float314) := by
  constructor
  · intro hp; unfold selBool; rw [h]; simp only [hx, Option.getD, hp]
  · intro hp; unfold selFloat; rw [h]; simp only [hx, Option.getD, hp]

/-! ## Witness schemas -/

def fld (n : String) (k : Kind) : Field := { name := n.toList, kind := k }
def msg (name : String) (fs : List Field) : Message := { fullName := (".p." ++ name).toList, name := name.toList, fields := fs }
def nestedMsg (outer name : String) (fs : List Field) : Message :=
  { fullName := (".p." ++ outer ++ "." ++ name).toList, name := name.toList, topLevel := false, fields := fs }
def file1 (ms : List Message) : File := { name := "a.proto".toList, messages := ms }
def rq1 (ms : List Message) : Request := { files := [file1 ms] }
def decl (m f : String) (exs : List String) : Str × Str × List Str := ((".p." ++ m).toList, f.toList, exs.map String.toList)

/-- defects of a single-field response. -/
def cell (f : Field) : List String := msgDefects (rq1 [msg "R" [f], msg "Leaf" [fld "street" .string]]) 3 [] (msg "R" [f])

/-! ### (a) the package does not build -/

theorem w_selector_type_mismatch :
    cell (fld "n" .int32) = ["selector_type_mismatch"] ∧ cell (fld "x" .float) = ["selector_type_mismatch"] ∧
    cell { fld "at" .message with typeName := ".google.protobuf.Timestamp".toList } = ["selector_type_mismatch"] := by decide

theorem w_optional_scalar : cell { fld "s" .string with card := .optional } = ["optional_scalar"] ∧
    cell { fld "b" .bool with card := .optional } = ["optional_scalar"] := by decide

theorem w_repeated_scalar : cell { fld "s" .string with card := .repeated } = ["repeated_scalar"] ∧
    cell { fld "d" .double with card := .repeated } = ["repeated_scalar"] := by decide

theorem w_oneof_member : cell { fld "s" .string with oneof := some "pick".toList } = ["oneof_member"] ∧
    cell { fld "l" .message with typeName := ".p.Leaf".toList, oneof := some "pick".toList } = ["oneof_member"] := by decide

theorem w_map_value :
    cell { fld "m" .uint32 with card := .map } = ["map_value_default_literal"] ∧
    cell { fld "m" .bytes with card := .map } = ["map_value_default_literal"] ∧
    cell { fld "m" .enum with card := .map } = ["map_value_type", "map_value_default_literal"] := by decide

/-- what does build: the cells the partial theorem covers, message children, the supported maps. -/
example : cell (fld "s" .string) = [] ∧ cell (fld "n" .int64) = [] ∧ cell (fld "u" .uint32) = [] ∧
    cell { fld "u" .uint32 with card := .repeated } = [] ∧
    cell { fld "l" .message with typeName := ".p.Leaf".toList, card := .optional } = [] ∧
    cell { fld "m" .float with card := .map } = [] ∧
    cell { fld "m" .message with typeName := ".p.Leaf".toList, card := .map, mapKey := .bool } = [] := by decide

/-! ### (a0) the mock file is not Go any more -/

theorem w_example_breaks_go_literal :
    tableLine "say \"hi\"".toList = .unparsable ∧ tableLine "back\\slash".toList = .unparsable ∧
    tableLine "line\nbreak".toList = .unparsable ∧ tableLine "trail\\".toList = .unparsable ∧
    exampleTable (file1 [msg "R" [fld "title" .string]]) [decl "R" "title" ["ok", "say \"hi\""]] = .unparsable := by decide

/-- and an example can add table entries of its own. -/
theorem w_example_injects_entries : tableLine "x\", \"y".toList = .entries [some "x".toList, some "y".toList] := by decide

/-! ### (b) answers -/

def rTitle : Message := msg "R" [fld "title" .string]

/-- `\xff` is four harmless characters in the definition; pasted into the literal it is one byte
that is not UTF-8: the value is not well typed (the server answers 500). -/
theorem w_string_not_utf8 :
    let d := [decl "R" "title" ["\\xff"]]
    let vs := mockMsg (rq1 [rTitle]) (envOf (file1 [rTitle]) d) 2 [] [] rTitle
    exampleTable (file1 [rTitle]) d = .ok [("R.title".toList, [none])] ∧
    wt (rq1 [rTitle]) 2 rTitle vs = false ∧ (vs.any fun p => hasBadUtf8 3 p.2) = true := by decide

/-- `a\tb` (backslash, t) becomes a TAB: the field holds a string that is not among its examples. -/
theorem w_example_altered_by_literal_reading :
    let d := [decl "R" "title" ["a\\tb"]]
    let vs := mockMsg (rq1 [rTitle]) (envOf (file1 [rTitle]) d) 2 [] [] rTitle
    wt (rq1 [rTitle]) 2 rTitle vs = true ∧ dishonoured (rq1 [rTitle]) d [] 2 [] rTitle vs = [".title".toList] := by decide

def rInner : Message := msg "R" [{ fld "inner" .message with typeName := ".p.R.Inner".toList }]
def inner : Message := nestedMsg "R" "Inner" [fld "city" .string]

/-- examples of a NESTED message type are stored under `R.Inner.city` and looked up under
`Inner.city`: never found. -/
theorem w_example_ignored_nested_message :
    let ms := [rInner, inner]
    let d := [decl "R.Inner" "city" ["Oslo"]]
    exampleTable (file1 ms) d = .ok [("R.Inner.city".toList, [some "Oslo".toList])] ∧
    dishonoured (rq1 ms) d [] 3 [] rInner (mockMsg (rq1 ms) (envOf (file1 ms) d) 3 [] [] rInner) = [".inner.city".toList] := by decide

/-- … unless a top-level message has the same short name: then ITS examples are taken. -/
theorem w_example_wrong_short_name_collision :
    let ms := [rInner, inner, msg "Inner" [fld "city" .string]]
    let d := [decl "R.Inner" "city" ["Oslo"], decl "Inner" "city" ["Paris"]]
    mockMsg (rq1 ms) (envOf (file1 ms) d) 3 [] [] rInner = [("inner".toList, .msg [("city".toList, .str "Paris".toList)])] ∧
    dishonoured (rq1 ms) d [] 3 [] rInner (mockMsg (rq1 ms) (envOf (file1 ms) d) 3 [] [] rInner) = [".inner.city".toList] := by
  constructor
  · rfl
  · decide

/-- kinds without a selector (here uint32) ignore their examples. -/
theorem w_example_ignored_kind_without_selector :
    let r := msg "R" [fld "rank" .uint32]
    let d := [decl "R" "rank" ["5"]]
    dishonoured (rq1 [r]) d [] 2 [] r (mockMsg (rq1 [r]) (envOf (file1 [r]) d) 2 [] [] r) = [".rank".toList] := by decide

/-- a list with one unparsable member: that draw yields 42, which is not an example. -/
theorem w_example_fallback_unparsable_member :
    let r := msg "R" [fld "count" .int64]
    let d := [decl "R" "count" ["abc", "7"]]
    dishonoured (rq1 [r]) d [] 2 [] r (mockMsg (rq1 [r]) (envOf (file1 [r]) d [] (fun _ => 0)) 2 [] [] r) = [".count".toList] ∧
    dishonoured (rq1 [r]) d [] 2 [] r (mockMsg (rq1 [r]) (envOf (file1 [r]) d [] (fun _ => 1)) 2 [] [] r) = [] := by decide

/-- a double example `NaN` is taken (the example IS honoured), protojson prints it as the string
"NaN", and the published schema of a double says `number`. -/
theorem w_schema_invalid_non_finite_double :
    let f := fld "score" .double
    let r := msg "R" [f]
    let d := [decl "R" "score" ["NaN"]]
    let floats := [("NaN".toList, ({ tok := "NaN".toList, quoted := true } : FloatRow))]
    let vs := mockMsg (rq1 [r]) (envOf (file1 [r]) d floats) 2 [] [] r
    let schema := Json.obj [("type".toList, .str "object".toList),
      ("properties".toList, .obj [("score".toList, .obj [("type".toList, .str "number".toList), ("format".toList, .str "double".toList)])])]
    vs = [("score".toList, .float "NaN".toList true)] ∧ dishonoured (rq1 [r]) d floats 2 [] r vs = [] ∧
    (scalarJson (rq1 [r]) true f (.float "NaN".toList true) == Json.str "NaN".toList) = true ∧
    Schema.valid [] 6 schema (Json.obj [("score".toList, .str "NaN".toList)]) = false :=
  ⟨rfl, by decide, by decide, by decide⟩

/-! ### recursion (fixed by b58be88: the emitter carries the set of messages on the current path) -/

def node : Message := msg "Node" [fld "label" .string, { fld "next" .message with typeName := ".p.Node".toList }]
def treeNode : Message := msg "Tree" [{ fld "kids" .message with typeName := ".p.Tree".toList, card := .map },
  { fld "pair" .message with typeName := ".p.Pair".toList }]
def pairNode : Message := msg "Pair" [{ fld "left" .message with typeName := ".p.Tree".toList, card := .optional }, fld "ok" .bool]

/-- a self-referential response type: the recursion ends, the recursive field is simply absent. -/
theorem recursive_response_answers :
    finishes (rq1 [node]) 2 [] node = true ∧ msgDefects (rq1 [node]) 2 [] node = [] ∧
    mockMsg (rq1 [node]) {} 2 [] [] node = [("label".toList, .str "example string".toList)] :=
  ⟨by decide, by decide, rfl⟩

/-- mutual recursion and recursion through a map value: both children on the path stay unset
(no `kids` map at all, `pair.left` absent), everything else is filled. -/
theorem mutually_recursive_response_answers :
    finishes (rq1 [treeNode, pairNode]) 3 [] treeNode = true ∧
    mockMsg (rq1 [treeNode, pairNode]) {} 3 [] [] treeNode = [("pair".toList, .msg [("ok".toList, .bool true)])] :=
  ⟨by decide, rfl⟩

/-- the guard is the PATH, not a visited set: a type met on two different branches is filled twice. -/
theorem shared_type_filled_on_every_branch :
    let leaf := msg "Leaf" [fld "ok" .bool]
    let r := msg "R" [{ fld "a" .message with typeName := ".p.Leaf".toList }, { fld "b" .message with typeName := ".p.Leaf".toList }]
    mockMsg (rq1 [r, leaf]) {} 3 [] [] r =
      [("a".toList, .msg [("ok".toList, .bool true)]), ("b".toList, .msg [("ok".toList, .bool true)])] := rfl

/-- a recursive oneof member emits no statement any more, so it no longer breaks the build
(a non-recursive message member still does: `w_oneof_member`). -/
theorem recursive_oneof_member_builds :
    let n := msg "Node" [{ fld "next" .message with typeName := ".p.Node".toList, oneof := some "pick".toList },
      { fld "other" .uint32 with oneof := some "pick".toList }]
    msgDefects (rq1 [n]) 2 [] n = [] := by decide

/-- the guarded recursion ends on EVERY type graph (C16's graph model of the same recursion). -/
theorem guarded_recursion_terminates (g : Graph) (path : List Str) (m : Str) :
    ∃ k, mockAssignGuarded g path m = Outcome.done k :=
  mockAssignGuarded_done g path m

/-- regression witness: the recursion before b58be88 (no guard) ran out of any fuel on a self loop. -/
theorem unguarded_recursion_diverged : ∀ fuel, mockAssign [("A".toList, ["A".toList])] fuel "A".toList = Outcome.outOfFuel :=
  mockAssign_diverges_on_self_loop

/-! ## The full statement and its refutation -/

/-- C20 for one RPC with response type `m` of a generated file (the schema-validity conjunct needs the
emitted OpenAPI document and is decided per answer by the harness with `Schema.valid`). -/
def Full : Prop :=
  ∀ (rq : Request) (file : File) (d : Decls) (floats : List (Str × FloatRow)) (m : Message) (fuel : Nat)
    (pick : Str → Nat), file ∈ rq.files → finishes rq fuel [] m = true →
    (∃ t, exampleTable file d = .ok t) ∧ msgDefects rq fuel [] m = [] ∧
    let vs := mockMsg rq (envOf file d floats pick) fuel [] [] m
    wt rq fuel m vs = true ∧ dishonoured rq d floats fuel [] m vs = []

theorem not_full : ¬ Full := by
  intro h
  have := (h (rq1 [msg "R" [fld "n" .int32]]) (file1 [msg "R" [fld "n" .int32]]) [] [] (msg "R" [fld "n" .int32]) 2 (fun _ => 0)
    (by simp [rq1]) (by decide)).2.1
  revert this
  decide

/-- non-vacuity of the partial theorems: an accepted response type for which everything holds. -/
example :
    let leaf := msg "Leaf" [fld "street" .string, fld "zip" .int64]
    let r := msg "R" [fld "title" .string, fld "ok" .bool, { fld "leaf" .message with typeName := ".p.Leaf".toList },
      { fld "tags" .uint32 with card := .repeated }]
    let d := [decl "R" "title" ["héllo"], decl "Leaf" "zip" ["7", "+9"]]
    let vs := mockMsg (rq1 [r, leaf]) (envOf (file1 [r, leaf]) d [] (fun _ => 1)) 3 [] [] r
    msgDefects (rq1 [r, leaf]) 3 [] r = [] ∧ finishes (rq1 [r, leaf]) 3 [] r = true ∧ wt (rq1 [r, leaf]) 3 r vs = true ∧
    dishonoured (rq1 [r, leaf]) d [] 3 [] r vs = [] := by decide

def titleKey : Str := "R.title".toList

example : CleanTable [(titleKey, [some "x".toList])] := by
  intro k v hv
  unfold Table.get at hv
  by_cases hk : (k == titleKey) = true
  · simp [List.lookup, hk] at hv; subst hv; rfl
  · have hk' : (k == titleKey) = false := by simpa using hk
    simp [List.lookup, hk'] at hv

example : plain "héllo ✓ it's".toList = true ∧ plain "a\\tb".toList = false := by decide

/-- the hypotheses of the `takes_example_…` / `unparsable_…` theorems are met by real tables. -/
example :
    let env : Env := { tbl := [(titleKey, [some "7".toList, some "abc".toList])] }
    env.tbl.get titleKey = [some "7".toList, some "abc".toList] ∧
    (∀ x ∈ [some "7".toList], (x.bind parseInt).isSome = true) ∧
    pickOf { env with pick := fun _ => 1 } [] [some "7".toList, some "abc".toList] = some (some "abc".toList) ∧
    (some "abc".toList).bind parseInt = none := by decide

example : SimpleField (fld "s" .string) ∧ SimpleField { fld "u" .uint64 with card := .repeated } := by
  constructor <;> simp [SimpleField, fld, actionOf]

end Sebuf.C20
