import Sebuf.Str
import Sebuf.Dec
import Sebuf.Gen.Pipeline
/-!
The emitted `BindingMiddleware` as a step machine over the message being bound (`Impl`).
The ORDER of the steps is the regenerated fact `Gen.Pipeline.order`; the semantics of each step
is transcribed from the emitted text:
* path / query binders `Set` one field per configured parameter (no reset);
* the body step runs only for `Gen.Pipeline.bodyVerbs`; an empty body does nothing; otherwise
  `protojson.Unmarshal` / `proto.Unmarshal` RESET the message and then fset the fields the body
  mentions.
-/
namespace Sebuf.Bind
open Sebuf

variable {V : Type}

abbrev Fields (V : Type) := List (Str × V)

def fget (k : Str) : Fields V → Option V
  | [] => none
  | (k', v) :: t => if k' = k then some v else fget k t

def fset (k : Str) (v : V) : Fields V → Fields V
  | [] => [(k, v)]
  | (k', v') :: t => if k' = k then (k, v) :: t else (k', v') :: fset k v t

def fsetAll (kvs : Fields V) (m : Fields V) : Fields V := kvs.foldl (fun m p => fset p.1 p.2 m) m

inductive Step | headers | path | query | body | validate | handler
deriving DecidableEq, Repr

def Step.ofName : String → Option Step
  | "headers" => some .headers | "path" => some .path | "query" => some .query
  | "body" => some .body | "validate" => some .validate | "handler" => some .handler
  | _ => none

/-- the steps the emitted middleware runs, in its order. -/
def currentOrder : List Step := Gen.Pipeline.order.filterMap Step.ofName

/-- one HTTP request as the binders see it (URL values already converted; conversion failures
are modelled by `convertAll`). -/
structure Req (V : Type) where
  bodyVerb  : Bool                    -- the route's verb is one the middleware binds a body for
  pathVals  : Fields V                -- (field, value) per configured path variable
  queryVals : Fields V                -- (field, value) per query parameter present in the URL
  body      : Option (Fields V)       -- none: absent or empty body; some fs: decoded, mentions exactly fs

def applyStep (r : Req V) : Step → Fields V → Fields V
  | .path, m => fsetAll r.pathVals m
  | .query, m => fsetAll r.queryVals m
  | .body, m => if r.bodyVerb then (match r.body with | none => m | some fs => fs) else m
  | _, m => m

/-- the message the handler receives. -/
def bindMsg (order : List Step) (r : Req V) : Fields V := order.foldl (fun m s => applyStep r s m) []

/-- the steps that touch the message, in order. -/
def relevant (order : List Step) : List Step := order.filter fun s => s = .path || s = .query || s = .body

/-! ### URL text → field value (`convertStringToFieldValue`), over the regenerated table -/

/-- strconv parser named in `Gen.Pipeline.convertTable` for an integer kind. -/
def intParser (parser bits : String) : Option (Str → Option Int) :=
  match parser, bits with
  | "ParseInt", "32" => some (parseInt 32)
  | "ParseInt", "64" => some (parseInt 64)
  | "ParseUint", "32" => some fun s => (parseUint 32 s).map Int.ofNat
  | "ParseUint", "64" => some fun s => (parseUint 64 s).map Int.ofNat
  | _, _ => none

def lookupKind (k : String) : Option (String × String) :=
  (Gen.Pipeline.convertTable.find? (·.1 == k)).map (·.2)

/-- convert a URL string for an integer kind the way the emitted server does. `none` = the kind
is not an integer kind of the table; `some none` = conversion error (HTTP 400). -/
def convertInt (kind : String) (text : Str) : Option (Option Int) :=
  match lookupKind kind with
  | some (p, b) => (intParser p b).map (· text)
  | none => none

def convertBool (text : Str) : Option (Option Bool) :=
  match lookupKind "bool" with
  | some ("ParseBool", _) => some (parseBool text)
  | _ => none

/-! ### occurrences of a query parameter (`bindQueryParams`) -/

/-- a `repeated` field: EVERY occurrence of the parameter is converted, in order, each as one element
(`for _, v := range values`); the first element that does not convert fails the request. -/
def bindList {α β : Type} (conv : β → Option α) (occ : List β) : Option (List α) := occ.mapM conv

/-- a singular field: the FIRST occurrence (`values[0]`); `some none` = the parameter is absent. -/
def bindSingular {α β : Type} (conv : β → Option α) : List β → Option (Option α)
  | [] => some none
  | t :: _ => (conv t).map some

/-- what binding one singular query parameter does to the request. -/
inductive QBound (α : Type)
  | rejected        -- 400 with a violation naming the field
  | absent          -- the field is left as it is
  | bound (v : α)
deriving DecidableEq, Repr

/-- `bindQueryParams` for one singular parameter, over the regenerated branch for a parameter WITHOUT occurrences
(`Gen.Pipeline.queryAbsent*`): refused exactly when the route's table marks it required — the field's own presence
discipline (`optional` keyword or not) is no input of this function — and skipped otherwise; with occurrences, the first
one is converted. -/
def bindQueryParam {α β : Type} (required : Bool) (conv : β → Option α) (occ : List β) : QBound α :=
  if occ.isEmpty && Gen.Pipeline.queryAbsentTest == "len(values) == 0" then
    if required && Gen.Pipeline.queryAbsentRequiredTest == "param.Required" && Gen.Pipeline.queryAbsentRequiredReturns then .rejected
    else .absent
  else
    match bindSingular conv occ with
    | none => .rejected
    | some none => .absent
    | some (some v) => .bound v

/-- value range of each integer kind of protobuf. -/
def kindRange (kind : String) : Option (Int × Int) :=
  match kind with
  | "int32" | "sint32" | "sfixed32" => some (-(2:Int)^31, (2:Int)^31 - 1)
  | "int64" | "sint64" | "sfixed64" => some (-(2:Int)^63, (2:Int)^63 - 1)
  | "uint32" | "fixed32" => some (0, (2:Int)^32 - 1)
  | "uint64" | "fixed64" => some (0, (2:Int)^64 - 1)
  | _ => none

end Sebuf.Bind
