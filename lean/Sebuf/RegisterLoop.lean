/-!
# The registration loop of the Go server emitter

`Register<Service>Server` is printed by a loop over the service's methods; per method it prints either the
DECLARATION `methodHeaders := get<M>Headers()` (when the loop index is 0) or the assignment `methodHeaders = …`,
then the route built from it. Go accepts the emitted function only if the declaration comes first and once.
The model keeps the index test and lets an iteration be skipped (`continue`) before or after that test.
-/
namespace Sebuf.RegisterLoop

inductive Stmt where
  | declare   -- methodHeaders := …
  | assign    -- methodHeaders = …
deriving DecidableEq, Repr

/-- the loop as it is: every iteration reaches the test; index 0 declares. -/
def emitFrom (i : Nat) : List α → List Stmt
  | [] => []
  | _ :: ms => (if i = 0 then Stmt.declare else Stmt.assign) :: emitFrom (i + 1) ms

def emit (ms : List α) : List Stmt := emitFrom 0 ms

/-- a loop that leaves an iteration (`continue`) BEFORE the index test when `skip m` holds: the index still counts. -/
def emitSkipFrom (skip : α → Bool) (i : Nat) : List α → List Stmt
  | [] => []
  | m :: ms =>
    if skip m then emitSkipFrom skip (i + 1) ms
    else (if i = 0 then Stmt.declare else Stmt.assign) :: emitSkipFrom skip (i + 1) ms

def emitSkip (skip : α → Bool) (ms : List α) : List Stmt := emitSkipFrom skip 0 ms

/-- what the Go compiler asks of the sequence: nothing at all, or one declaration followed by assignments only. -/
def wellFormed : List Stmt → Bool
  | [] => true
  | .declare :: r => r.all (· == .assign)
  | .assign :: _ => false

end Sebuf.RegisterLoop
