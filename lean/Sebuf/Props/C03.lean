import Sebuf.Route
/-!
# C03 — all five generators agree on each RPC's verb, path and parameter placement

Full statement (`PathsAgree`, `PlacementAgree`, `OneOperation`) is kept visible; the current
code does not satisfy it (witness theorems `not_*`), so the proved theorems are the `_partial`
ones, each under an explicit decidable side condition, plus `verbs_agree` (full).
-/
namespace Sebuf.C03
open Sebuf


/-- witness records (one field per line: Lean's structure-instance layout rule). -/
def mk (svc meth goName pkg base : String) (cfg : Bool) (path : String) (verb : Nat) (qs : List String) : MethodIn :=
  { svcName := svc.toList
    methName := meth.toList
    methGoName := goName.toList
    goPkg := pkg.toList
    base := base.toList
    hasConfig := cfg
    path := path.toList
    verbNum := verb
    queryNames := qs.map String.toList }

def knownVerbs : List Str := ["GET".toList, "POST".toList, "PUT".toList, "DELETE".toList, "PATCH".toList]

/-- Every string the regenerated `HTTPMethodToString` table can return is one of the five verbs. -/
theorem table_known : ∀ p ∈ Gen.Verbs.table, p.2.toList ∈ knownVerbs := by decide

theorem fallback_known : Gen.Verbs.fallback.toList ∈ knownVerbs := by decide

theorem lookup_mem {α β} [BEq α] [LawfulBEq α] (l : List (α × β)) (k : α) (v : β)
    (h : l.lookup k = some v) : (k, v) ∈ l := by
  induction l with
  | nil => simp [List.lookup] at h
  | cons p t ih =>
    obtain ⟨a, b⟩ := p
    simp only [List.lookup] at h
    split at h
    · rename_i heq
      have : k = a := by simpa using heq
      subst this
      cases h
      exact List.mem_cons_self
    · exact List.mem_cons_of_mem _ (ih h)

theorem verbOfNum_known (n : Nat) : verbOfNum n ∈ knownVerbs := by
  unfold verbOfNum
  split
  · rename_i s h
    exact table_known (n, s) (lookup_mem _ _ _ h)
  · exact fallback_known

theorem verbOf_known (m : MethodIn) : verbOf m ∈ knownVerbs := by
  unfold verbOf
  split
  · simp only
    split
    · decide
    · exact verbOfNum_known _
  · decide

/-- On the five verbs, OpenAPI's lower-casing, filing and our upper-casing are the identity. -/
theorem upper_lower_known : ∀ v ∈ knownVerbs,
    toUpperStr (let w := toLowerStr v
                let w := if w = [] then "post".toList else w
                if w = "get".toList ∨ w = "post".toList ∨ w = "put".toList ∨ w = "delete".toList ∨ w = "patch".toList
                then w else "post".toList) = v ∧ v ≠ [] := by decide

theorem openapi_verb (m : MethodIn) : toUpperStr (openapiVerbLower m) = verbOf m := by
  unfold openapiVerbLower verbOf
  by_cases hc : m.hasConfig
  · simp only [hc, if_true]
    have hk := verbOfNum_known m.verbNum
    have := upper_lower_known _ hk
    simp only [this.2, if_false]
    exact this.1
  · have hc' : m.hasConfig = false := by simpa using hc
    simp only [hc', Bool.false_eq_true, if_false]
    decide

/-- **C03 (verbs), full**: all five generators use the same HTTP verb for every RPC. -/
theorem verbs_agree (m : MethodIn) (g g' : Generator) : (route g m).verb = (route g' m).verb := by
  have h := openapi_verb m
  cases g <;> cases g' <;> simp [route, h]

/-- **C03 (clients), full**: the Go client, TS client and TS server derive identical routes. -/
theorem clients_agree (m : MethodIn) :
    route .goClient m = route .tsClient m ∧ route .tsClient m = route .tsServer m := ⟨rfl, rfl⟩

/-- Full path-agreement statement (false today, see `not_paths_agree`). -/
def PathsAgree : Prop := ∀ (m : MethodIn) (g g' : Generator), (route g m).template = (route g' m).template

/-- Side condition of the partial theorem: an explicit method path, and leading slashes where
the generators disagree about adding them. -/
def ExplicitPathOK (m : MethodIn) : Prop :=
  m.hasConfig = true ∧ m.path ≠ [] ∧ (m.base = [] → hasPrefixSlash m.path = true) ∧
  (m.base ≠ [] → hasPrefixSlash m.base = true)

theorem ensure_of_prefix {s : Str} (h : hasPrefixSlash s = true) : ensureLeadingSlash s = s := by
  match s with
  | [] => simp [hasPrefixSlash] at h
  | x :: r =>
    by_cases hx : x = '/'
    · subst hx; simp [ensureLeadingSlash]
    · have h1 : hasPrefixSlash (x :: r) = false := by
        unfold hasPrefixSlash; split <;> simp_all
      simp [h1] at h

theorem slash_trim (c : Str) : (if hasPrefixSlash c then c else '/' :: c) = '/' :: trimPrefixSlash c := by
  match c with
  | [] => simp [hasPrefixSlash, trimPrefixSlash]
  | x :: r =>
    by_cases hx : x = '/'
    · subst hx; simp [hasPrefixSlash, trimPrefixSlash]
    · have h1 : hasPrefixSlash (x :: r) = false := by
        unfold hasPrefixSlash; split <;> simp_all
      have h2 : trimPrefixSlash (x :: r) = x :: r := by
        unfold trimPrefixSlash; split <;> simp_all
      simp [h1, h2]

theorem goHttp_eq_client (m : MethodIn) (h : ExplicitPathOK m) : goHttpPath m = clientPath m := by
  obtain ⟨hc, hp, hb0, hb1⟩ := h
  unfold goHttpPath clientPath customPath buildHTTPPath
  simp only [hc, if_true]
  by_cases hb : m.base = []
  · simp [hb, hp, ensure_of_prefix (hb0 hb)]
  · simp [hb, hp, ensure_of_prefix (hb1 hb), slash_trim]

theorem openapi_eq_client (m : MethodIn) (h : ExplicitPathOK m) : openapiPath m = clientPath m := by
  obtain ⟨hc, hp, _, _⟩ := h
  unfold openapiPath clientPath customPath
  simp [hc, hp]

/-- **C03 (paths), partial**: with an explicit method path (and leading slashes present) the
five path templates coincide. -/
theorem paths_agree_partial (m : MethodIn) (h : ExplicitPathOK m) (g g' : Generator) :
    (route g m).template = (route g' m).template := by
  have h1 := goHttp_eq_client m h
  have h2 := openapi_eq_client m h
  cases g <;> cases g' <;> simp [route, h1, h2]

/-- non-vacuity: a concrete RPC satisfies the side condition. -/
example : ExplicitPathOK (mk "S" "Get" "Get" "p" "/api" true "/users/{id}" 1 []) := by
  unfold ExplicitPathOK; decide

/-- **¬ PathsAgree** (known finding C03:default_path): an un-annotated RPC under a base path. -/
theorem not_paths_agree : ¬ PathsAgree := by
  intro h
  have := h (mk "S" "Echo" "Echo" "p" "/api/v1" false "" 0 []) .goHttp .openapi
  revert this; decide

/-- the three default paths differ pairwise when there is neither base path nor config. -/
theorem default_paths_differ :
    let m : MethodIn := mk "Svc" "GetUser" "GetUser" "pkgv1" "" false "" 0 []
    (route .goHttp m).template = "/pkgv1/get_user".toList ∧
    (route .goClient m).template = "/getUser".toList ∧
    (route .openapi m).template = "/Svc/GetUser".toList := by decide

/-- Placement (which fields travel where) as each generator sees it. -/
def placement (g : Generator) (m : MethodIn) : List Str × List Str × Bool :=
  ((route g m).pathVars, (route g m).queryNames, (route g m).hasBody)

def PlacementAgree : Prop := ∀ m g g', placement g m = placement g' m

/-- **C03 (placement), partial**: for bodiless verbs, or when no field is query-annotated, all
five generators place every field identically. -/
theorem placement_partial (m : MethodIn)
    (h : isQueryVerb (verbOf m) = true ∨ m.queryNames = []) (g g' : Generator) :
    placement g m = placement g' m := by
  have hv := openapi_verb m
  rcases h with h | h
  · cases g <;> cases g' <;> simp [placement, route, hv, h]
  · cases g <;> cases g' <;> simp [placement, route, hv, h]

/-- **¬ PlacementAgree** (known finding C03:query_on_body_verb): a POST with a query-annotated
field is a query parameter for the Go server and OpenAPI but part of the body for the clients. -/
theorem not_placement_agree : ¬ PlacementAgree := by
  intro h
  have := h (mk "S" "Find" "Find" "p" "" true "/find" 2 ["q"]) .goHttp .goClient
  revert this; decide

/-! ## One operation per RPC in the OpenAPI document -/

/-- `processMethod`: path items keyed by path, operation slot keyed by verb; a later RPC with
the same (path, verb) overwrites the earlier one. Modelled as an association list upsert. -/
def upsert (k : Str × Str) (v : Str) : List ((Str × Str) × Str) → List ((Str × Str) × Str)
  | [] => [(k, v)]
  | (k', v') :: t => if k' = k then (k, v) :: t else (k', v') :: upsert k v t

def opKey (m : MethodIn) : Str × Str := ((route .openapi m).template, openapiVerbLower m)

def oaOps (ms : List MethodIn) : List ((Str × Str) × Str) :=
  ms.foldl (fun acc m => upsert (opKey m) m.methName acc) []

theorem upsert_absent (k : Str × Str) (v : Str) (l : List ((Str × Str) × Str))
    (h : k ∉ l.map Prod.fst) : upsert k v l = l ++ [(k, v)] := by
  induction l with
  | nil => rfl
  | cons p t ih =>
    obtain ⟨k', v'⟩ := p
    simp only [List.map_cons, List.mem_cons, not_or] at h
    simp only [upsert]
    have : ¬ k' = k := fun e => h.1 e.symm
    simp [this, ih h.2]

theorem oaOps_aux (ms : List MethodIn) (acc : List ((Str × Str) × Str))
    (hnd : (acc.map Prod.fst ++ ms.map opKey).Nodup) :
    ms.foldl (fun acc m => upsert (opKey m) m.methName acc) acc
      = acc ++ ms.map (fun m => (opKey m, m.methName)) := by
  induction ms generalizing acc with
  | nil => simp
  | cons m t ih =>
    simp only [List.foldl_cons, List.map_cons]
    have hk : opKey m ∉ acc.map Prod.fst := by
      intro hmem
      have := List.nodup_append.mp hnd
      exact this.2.2 _ hmem _ (List.mem_cons_self) rfl
    rw [upsert_absent _ _ _ hk]
    have : ((acc ++ [(opKey m, m.methName)]).map Prod.fst ++ t.map opKey).Nodup := by
      simpa [List.append_assoc] using hnd
    rw [ih _ this]
    simp

/-- **C03 (one operation per RPC), partial**: when the (path, verb) pairs of a service's RPCs
are pairwise distinct, the document has exactly one operation per RPC, in declaration order. -/
theorem one_operation_partial (ms : List MethodIn) (h : (ms.map opKey).Nodup) :
    (oaOps ms).map Prod.snd = ms.map (·.methName) := by
  unfold oaOps
  rw [oaOps_aux ms [] (by simpa using h)]
  simp [List.map_map, Function.comp_def]

def OneOperation : Prop := ∀ ms : List MethodIn, (oaOps ms).length = ms.length

/-- **¬ OneOperation** (known finding C03:openapi_base_path_overwrite): two un-annotated RPCs of
a service with a base path both get the bare base path and the second replaces the first. -/
theorem not_one_operation : ¬ OneOperation := by
  intro h
  have := h [mk "S" "A" "A" "p" "/api" false "" 0 [], mk "S" "B" "B" "p" "/api" false "" 0 []]
  revert this; decide

end Sebuf.C03
