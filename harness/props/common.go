// Package props holds one checker per property. Each fills a report.Result from real
// artefacts (oracle) and from the Lean driver (correspondence).
package props

import (
	"fmt"
	"runtime"
	"sync"

	"verif/harness/ir"
	"verif/harness/plug"
	"verif/harness/report"
)

type Ctx struct {
	Res  *report.Result
	Tier string
	Seed int64
}

func (c *Ctx) Thorough() bool { return c.Tier == "thorough" }

// N picks a case count by tier.
func (c *Ctx) N(quick, thorough int) int {
	if c.Thorough() {
		return thorough
	}
	return quick
}

var Registry = map[string]func(*Ctx) error{}

// parallel runs f over [0,n) on all cores.
func parallel(n int, f func(i int)) {
	var wg sync.WaitGroup
	sem := make(chan struct{}, runtime.NumCPU())
	for i := 0; i < n; i++ {
		wg.Add(1)
		sem <- struct{}{}
		go func(i int) {
			defer wg.Done()
			defer func() { <-sem }()
			f(i)
		}(i)
	}
	wg.Wait()
}

// runAll runs the five plugins on req.
func runAll(req *ir.Request) (map[string]*plug.Result, error) {
	out := map[string]*plug.Result{}
	for _, p := range plug.All {
		res, err := plug.Run(p, req, nil)
		if err != nil {
			return nil, fmt.Errorf("%s: %w", p, err)
		}
		out[p] = res
	}
	return out, nil
}

func errText(r *plug.Result) string {
	if r.Error != nil {
		return *r.Error
	}
	if r.Crash != "" {
		return r.Crash + ": " + r.Stderr
	}
	return ""
}
