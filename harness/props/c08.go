package props

import (
	"encoding/base64"
	"encoding/json"
	"fmt"
	"math"
	"os"
	"regexp"
	"sort"
	"strings"
	"sync"
	"time"

	"google.golang.org/protobuf/encoding/protojson"
	"google.golang.org/protobuf/proto"
	"google.golang.org/protobuf/reflect/protoreflect"
	"google.golang.org/protobuf/types/dynamicpb"

	"verif/harness/drv"
	"verif/harness/gen"
	"verif/harness/ir"
	"verif/harness/plug"
	"verif/harness/scratch"
	"verif/harness/tsrun"
)

func init() { Registry["C08"] = C08 }

// ---------------------------------------------------------------------------------------------
// schemas

type c08Schema struct {
	idx       int
	kind      string
	req       *ir.Request
	x         *rtItem // Go side; x.it.Built may be false
	clientSrc string
	serverSrc string
	clientErr string // ts-client refused the schema
	serverErr string // ts-server refused the schema
	clientTS  string // path
	serverTS  string
	load      map[string]any
	clientOK  bool
	serverOK  bool
	tsDefects []string          // model: predicted ts-server load defects
	prop      map[string]string // header name -> option property name, read from the emitted client
	jsNum     map[string]bool   // V8: !isNaN(Number(value)) for every header value in use
	cases     []*c08Case
}

func c08MakeSchema(r *gen.R, i int) (string, *ir.Request) {
	switch {
	case i == 0:
		return "corpus_loadable", gen.InteropCorpus(0)
	case i == 1:
		return "corpus_path_query_get", gen.InteropCorpus(1)
	}
	rr := r.Fork(fmt.Sprint("c08-schema-", i))
	switch i % 4 {
	case 2:
		return "multi_original", gen.GenMultiServiceFile(rr, i, gen.RuntimeOpts{Headers: true})
	case 3:
		q, _ := gen.SplitPathQuery(gen.GenMultiServiceFile(rr, i, gen.RuntimeOpts{Headers: true}))
		return "multi_split", q
	case 0:
		if i%8 == 0 {
			q, _ := gen.SplitPathQuery(gen.GenRuntimeFile(rr, i, gen.RuntimeOpts{ManyMethods: true}))
			return "runtime_split", q
		}
		return "runtime_original", gen.GenRuntimeFile(rr, i, gen.RuntimeOpts{ManyMethods: true, JSONNames: true, OddBasePaths: true, ReorderPathFields: true})
	default:
		if i%8 == 1 {
			q, _ := gen.SplitPathQuery(gen.GenMultiServiceFile(rr, i, gen.RuntimeOpts{Headers: true, ManyMethods: true}))
			return "multi_split_many", q
		}
		return "multi_original_many", gen.GenMultiServiceFile(rr, i, gen.RuntimeOpts{Headers: i%8 == 5, ManyMethods: true})
	}
}

var tsOptLine = regexp.MustCompile(`if \(options\?\.(\w+)\) headers\["([^"]+)"\] = options\.(\w+);`)
var tsCtorLine = regexp.MustCompile(`this\.defaultHeaders\["([^"]+)"\] = options\.(\w+);`)

// ---------------------------------------------------------------------------------------------
// cases

type hdrUse struct {
	h     ir.Header
	level string // svc | method
	mech  string // helper_client | helper_call | default_raw | call_raw
	value string
}

type c08Case struct {
	sc       *c08Schema
	mi       *methodInfo
	k        int
	scenario string // ok | missing | invalid
	victim   string
	dot      bool
	reqMsg   *dynamicpb.Message
	respMsg  *dynamicpb.Message
	tsReq    any
	tsResp   any
	hdrs     []hdrUse
	shared   []string // declared headers of this route whose TS option property another declared header shares, and the property is set
	urlProps []string // JSON names of URL-bound fields (for the String() table)

	tgA, tgB, tgC map[string]any // ts -> go: node capture, go serve, node final
	gtA, gtB, gtC map[string]any // go -> ts: go capture, node serve, go final
	tt            map[string]any // ts -> ts
	model         map[string]any
}

// tsBase: the base URL given to the TS client's constructor (trailing slashes are stripped by it).
func (k *c08Case) tsBase() string {
	return []string{"http://h.test", "http://h.test/", "http://h.test//"}[k.k%3]
}

func (k *c08Case) rpcGo() string { return k.mi.svc.Name + "." + k.mi.m.Name }
func (k *c08Case) svcTS() string { return ir.GoCamelCase(k.mi.svc.Name) }
func (k *c08Case) rpcTS() string { return lowerFirstASCII(ir.GoCamelCase(k.mi.m.Name)) }

func lowerFirstASCII(s string) string {
	if s == "" {
		return s
	}
	return strings.ToLower(s[:1]) + s[1:]
}

// scrubNegZero replaces -0.0 by +0.0 everywhere: JSON.stringify(-0) and String(-0) are "0"
// (ECMA-262), so a -0 cannot leave a JavaScript program through JSON at all.
func scrubNegZero(m protoreflect.Message) {
	fix := func(fd protoreflect.FieldDescriptor, v protoreflect.Value) (protoreflect.Value, bool) {
		if (fd.Kind() == protoreflect.FloatKind || fd.Kind() == protoreflect.DoubleKind) && v.Float() == 0 && math.Signbit(v.Float()) {
			if fd.Kind() == protoreflect.FloatKind {
				return protoreflect.ValueOfFloat32(0), true
			}
			return protoreflect.ValueOfFloat64(0), true
		}
		return v, false
	}
	m.Range(func(fd protoreflect.FieldDescriptor, v protoreflect.Value) bool {
		switch {
		case fd.IsMap():
			v.Map().Range(func(mk protoreflect.MapKey, mv protoreflect.Value) bool {
				if fd.MapValue().Kind() == protoreflect.MessageKind {
					scrubNegZero(mv.Message())
				} else if nv, ok := fix(fd.MapValue(), mv); ok {
					v.Map().Set(mk, nv)
				}
				return true
			})
		case fd.IsList():
			for i := 0; i < v.List().Len(); i++ {
				if fd.Kind() == protoreflect.MessageKind {
					scrubNegZero(v.List().Get(i).Message())
				} else if nv, ok := fix(fd, v.List().Get(i)); ok {
					v.List().Set(i, nv)
				}
			}
		case fd.Kind() == protoreflect.MessageKind:
			scrubNegZero(v.Message())
		default:
			if nv, ok := fix(fd, v); ok {
				m.Set(fd, nv)
			}
		}
		return true
	})
}

// denseJSON is the object a TypeScript caller writes for a message: proto3 JSON with every
// non-optional property present (the emitted interfaces declare them as required).
func denseJSON(m proto.Message) any {
	b, err := protojson.MarshalOptions{EmitDefaultValues: true}.Marshal(m)
	if err != nil {
		return nil
	}
	return canonJSONBytes(b)
}

// sameMessage: does the JSON value v denote msg? It must be readable as proto3 JSON of msg's
// type (64-bit integers as strings or numbers, numbers as numbers or decimal strings, absent
// = default) and equal as a message.
func sameMessage(v any, want *dynamicpb.Message) (bool, string) {
	if v == nil {
		return false, "no value"
	}
	b, err := json.Marshal(v)
	if err != nil {
		return false, "not JSON: " + err.Error()
	}
	got := dynamicpb.NewMessage(want.Descriptor())
	if err := protojson.Unmarshal(b, got); err != nil {
		return false, "not proto3 JSON of " + string(want.Descriptor().Name()) + ": " + clip(err.Error(), 160)
	}
	if !proto.Equal(got, want) {
		return false, "differs: " + clip(string(gen.PJ(got)), 200) + " instead of " + clip(string(gen.PJ(want)), 200)
	}
	return true, ""
}

var indisputablyInvalid = map[string]string{"integer": "abc", "number": "abc", "boolean": "maybe",
	"uuid": "not-a-uuid", "email": "no-at-sign", "date-time": "yesterday", "date": "01/02/2020", "time": "noon"}

func invalidFor(h ir.Header) (string, bool) {
	if v, ok := indisputablyInvalid[h.Type]; ok {
		return v, true
	}
	if h.Type == "" || h.Type == "string" {
		if v, ok := indisputablyInvalid[h.Format]; ok {
			return v, true
		}
	}
	return "", false
}

func b64s(s string) string { return base64.StdEncoding.EncodeToString([]byte(s)) }

func unb64(v any) string {
	s, _ := v.(string)
	b, _ := base64.StdEncoding.DecodeString(s)
	return string(b)
}

func pairsOf(v any) [][2]string {
	var out [][2]string
	for _, e := range asList(v) {
		p := asList(e)
		if len(p) == 2 {
			out = append(out, [2]string{fmt.Sprint(p[0]), fmt.Sprint(p[1])})
		}
	}
	return out
}

func headerGetCI(ps [][2]string, name string) (string, int) {
	n, val := 0, ""
	for _, p := range ps {
		if strings.EqualFold(p[0], name) {
			if n == 0 {
				val = p[1]
			}
			n++
		}
	}
	return val, n
}

func mapOf(v any) map[string]any {
	m, _ := v.(map[string]any)
	return m
}

// planHeaders draws the header part of a call.
func (k *c08Case) planHeaders(r *gen.R) {
	type decl struct {
		h     ir.Header
		level string
	}
	var ds []decl
	for _, h := range k.mi.svc.Headers {
		ds = append(ds, decl{h, "svc"})
	}
	for _, h := range k.mi.m.Headers {
		ds = append(ds, decl{h, "method"})
	}
	k.scenario = "ok"
	if len(ds) == 0 {
		return
	}
	switch k.k % 6 {
	case 4:
		var req []string
		for _, d := range ds {
			if d.h.Required {
				req = append(req, d.h.Name)
			}
		}
		if len(req) > 0 {
			k.scenario, k.victim = "missing", gen.Pick(r, req)
		}
	case 5:
		var inv []string
		for _, d := range ds {
			if _, ok := invalidFor(d.h); ok && d.h.Required {
				inv = append(inv, d.h.Name)
			}
		}
		if len(inv) > 0 {
			k.scenario, k.victim = "invalid", gen.Pick(r, inv)
		}
	}
	for _, d := range ds {
		if k.scenario == "missing" && d.h.Name == k.victim {
			continue
		}
		if !d.h.Required && !(k.scenario == "invalid" && d.h.Name == k.victim) && r.Bool() {
			continue
		}
		u := hdrUse{h: d.h, level: d.level, value: clearlyValidHeader(r, d.h)}
		if d.level == "svc" {
			u.mech = gen.Pick(r, []string{"helper_client", "helper_client", "helper_call", "default_raw", "call_raw"})
		} else {
			u.mech = gen.Pick(r, []string{"helper_call", "helper_call", "helper_call", "call_raw", "default_raw"})
		}
		if k.scenario == "invalid" && d.h.Name == k.victim {
			u.value, _ = invalidFor(d.h)
			u.mech = "helper_call"
		}
		k.hdrs = append(k.hdrs, u)
	}
	// TS option properties shared by two declared headers of this route
	for _, u := range k.hdrs {
		if !strings.HasPrefix(u.mech, "helper") {
			continue
		}
		for _, d := range ds {
			if d.h.Name != u.h.Name && k.sc.prop[d.h.Name] != "" && k.sc.prop[d.h.Name] == k.sc.prop[u.h.Name] {
				k.shared = append(k.shared, d.h.Name)
			}
		}
	}
}

func (k *c08Case) tsOptions() (map[string]any, map[string]any) {
	cl, call := map[string]any{}, map[string]any{}
	dh, ch := map[string]any{}, map[string]any{}
	for _, u := range k.hdrs {
		switch u.mech {
		case "helper_client":
			cl[k.sc.prop[u.h.Name]] = u.value
		case "helper_call":
			call[k.sc.prop[u.h.Name]] = u.value
		case "default_raw":
			dh[u.h.Name] = u.value
		case "call_raw":
			ch[u.h.Name] = u.value
		}
	}
	if len(dh) > 0 {
		cl["defaultHeaders"] = dh
	}
	if len(ch) > 0 {
		call["headers"] = ch
	}
	return cl, call
}

// tsSharedDefaults: the client options as a caller writes them who builds several clients from ONE
// `defaultHeaders` object (possibly empty) and gives each its own typed header values; the second result are
// the typed options of such an other client (the runner builds it after the client under test, from the same
// object; it makes no call).
func tsSharedDefaults(cl map[string]any) (map[string]any, map[string]any) {
	out, decoy := map[string]any{}, map[string]any{}
	for k, v := range cl {
		out[k] = v
		if k != "defaultHeaders" {
			decoy[k] = "other-client"
		}
	}
	if len(decoy) == 0 {
		return cl, nil
	}
	if _, ok := out["defaultHeaders"]; !ok {
		out["defaultHeaders"] = map[string]any{}
	}
	return out, decoy
}

func (k *c08Case) goOptions(op map[string]any) {
	var dh, ch, hd, hc [][2]string
	for _, u := range k.hdrs {
		p := [2]string{u.h.Name, u.value}
		switch u.mech {
		case "helper_client":
			hd = append(hd, p)
		case "helper_call":
			hc = append(hc, p)
		case "default_raw":
			dh = append(dh, p)
		case "call_raw":
			ch = append(ch, p)
		}
	}
	if dh != nil {
		op["default_headers"] = dh
	}
	if ch != nil {
		op["call_headers"] = ch
	}
	if hd != nil {
		op["helper_default"] = hd
	}
	if hc != nil {
		op["helper_call"] = hc
	}
}

// ---------------------------------------------------------------------------------------------

type c08Obs struct {
	good    bool
	symptom string
	class   string // divergence class when !good
}

// C08: generated TypeScript clients and servers interoperate with the Go ones.
func C08(c *Ctx) error {
	res := c.Res
	res.Rule = "accepted schemas (fixed corpus first; several services per file, every verb, base paths, path variables first/last/adjacent, query parameters, service- and method-level headers; routes combining path variables with query parameters both as emitted and split) x boundary-biased request/response values x client options (default headers, per-call headers, typed header helpers; all required headers present / one missing / one indisputably invalid): " +
		"the emitted TS modules are loaded by Node 22; every call is made three ways with the real emitted code on both ends — TS client -> compiled Go server, compiled Go client -> TS server, TS client -> TS server — without sockets (the client's Fetch API Request is handed to the other side's handler); " +
		"a case is one call in one direction; non-trivial = every case; distinct by (schema, rpc, direction, scenario, request digest)"
	res.Assumptions = append(res.Assumptions,
		"requests and responses are compared as proto3 JSON through protojson (64-bit integers are strings in TypeScript, absent = default); path-bound values are non-empty (property text)",
		"float values are finite and not -0.0: JSON.stringify / String of NaN, ±Infinity and -0 are ECMA-262 behaviour, not sebuf code",
		"the TS server's routes are wired the way the repository's example does (examples/ts-fullstack-demo/server/main.ts: first route with equal method and matchPath)",
		"route patterns are pairwise non-overlapping (documented precondition); the server is mounted at the origin (no path prefix in the client's base URL)")
	if !tsrun.Available() {
		res.Note("node 22 not found at " + tsrun.Node + ": TypeScript modules are not exercised; no coverage is claimed")
		return nil
	}
	r := gen.New(c.Seed)
	n := c.N(8, 60)
	per := c.N(8, 30)
	scs := make([]*c08Schema, n)
	for i := range scs {
		kind, req := c08MakeSchema(r, i)
		scs[i] = &c08Schema{idx: i, kind: kind, req: req, prop: map[string]string{}}
	}
	// Go side
	bt, items, err := buildBatch(n, func(i int) *ir.Request { return scs[i].req }, scratch.AddOpts{GoHTTP: true, GoClient: true}, false)
	if err != nil {
		return err
	}
	defer bt.Close()
	td, err := tsrun.NewDir()
	if err != nil {
		return err
	}
	defer td.Close()
	// TS side: emit
	for i, sc := range scs {
		sc.x = items[i]
		for _, p := range []string{plug.TSClient, plug.TSServer} {
			pr, err := plug.Run(p, sc.req, nil)
			if err != nil {
				return err
			}
			src := ""
			if pr.OK() {
				for _, content := range pr.Files {
					src = content
				}
			}
			if p == plug.TSClient {
				sc.clientSrc, sc.clientErr = src, errText(pr)
				if src != "" {
					sc.clientTS, _ = td.WriteModule(fmt.Sprintf("s%03d", i), "client", src)
				}
				for _, m := range tsOptLine.FindAllStringSubmatch(src, -1) {
					sc.prop[m[2]] = m[1]
				}
				for _, m := range tsCtorLine.FindAllStringSubmatch(src, -1) {
					sc.prop[m[1]] = m[2]
				}
			} else {
				sc.serverSrc, sc.serverErr = src, errText(pr)
				if src != "" {
					sc.serverTS, _ = td.WriteModule(fmt.Sprintf("s%03d", i), "server", src)
				}
			}
		}
	}
	// model: predicted load defects of the TS server module (Sebuf.Build, shared with C13)
	driver := drv.Available()
	if !driver {
		res.Corr("driver", "Lean driver binary missing (model did not build)", nil)
	} else {
		var dops []map[string]any
		for _, sc := range scs {
			dops = append(dops, map[string]any{"op": "build_defects", "rq": sc.req.ToModel()})
		}
		douts, err := drv.Run(dops)
		if err != nil {
			res.Corr("driver", "Lean driver failed: "+err.Error(), nil)
			driver = false
		} else {
			for i, sc := range scs {
				sc.tsDefects = strList(douts[i]["ts-server"])
			}
		}
	}
	// cases
	for _, sc := range scs {
		rr := r.Fork(fmt.Sprint("c08-cases-", sc.idx))
		for _, mi := range sc.x.methods() {
			md := sc.x.msgDesc(mi.m.Input)
			od := sc.x.msgDesc(mi.m.Output)
			pb := map[string]bool{}
			for _, v := range mi.pathVars {
				pb[v] = true
			}
			for k := 0; k < per; k++ {
				ks := &c08Case{sc: sc, mi: mi, k: k}
				ks.reqMsg = gen.RandomMessage(rr, md, &gen.ValOpts{PathBound: pb, SparseP: 2}, 0)
				ks.respMsg = gen.RandomMessage(rr, od, &gen.ValOpts{SparseP: 3}, 0)
				if len(mi.pathVars) > 0 && k == 3 {
					for _, v := range mi.pathVars {
						fd := md.Fields().ByName(protoreflect.Name(v))
						if fd.Kind() == protoreflect.StringKind && !ks.dot {
							ks.reqMsg.Set(fd, protoreflect.ValueOfString(gen.Pick(rr, []string{".", ".."})))
							ks.dot = true
						}
					}
				}
				scrubNegZero(ks.reqMsg)
				scrubNegZero(ks.respMsg)
				ks.tsReq, ks.tsResp = denseJSON(ks.reqMsg), denseJSON(ks.respMsg)
				for _, f := range mi.in.Fields {
					if mi.isURLBound(f.Name) {
						ks.urlProps = append(ks.urlProps, f.JSON())
					}
				}
				ks.planHeaders(rr)
				sc.cases = append(sc.cases, ks)
			}
		}
	}
	if err := c08Run(td, scs); err != nil {
		return err
	}
	c08Judge(c, scs, driver)
	res.Programs = len(scs)
	if os.Getenv("VERIF_C08_ONLY") == "" || os.Getenv("VERIF_C08_ONLY") == "raw" {
		if err := c08RawURLs(c, td, scs[0]); err != nil {
			return err
		}
	}
	if os.Getenv("VERIF_C08_ONLY") == "" || os.Getenv("VERIF_C08_ONLY") == "headers" {
		if err := c08Headers(c, r.Fork("c08-headers")); err != nil {
			return err
		}
	}
	return nil
}

// c08Run performs the five passes (node, go, node, go, node) for every schema in parallel.
func c08Run(td *tsrun.Dir, scs []*c08Schema) error {
	var mu sync.Mutex
	var firstErr error
	fail := func(err error) {
		mu.Lock()
		if firstErr == nil {
			firstErr = err
		}
		mu.Unlock()
	}
	parallel(len(scs), func(i int) {
		sc := scs[i]
		id := fmt.Sprintf("s%03d", sc.idx)
		dummy := map[string]any{"status": 200, "headers": [][2]string{{"content-type", "application/json"}}, "body": "{}"}
		goOK := sc.x.it.Built
		// pass 1 (node): load; capture the TS client's request; TS -> TS
		var ops []any
		type ref struct {
			k    *c08Case
			what string
		}
		var refs []ref
		for _, k := range sc.cases {
			cl, call := k.tsOptions()
			cl, decoy := tsSharedDefaults(cl)
			base := map[string]any{"svc": k.svcTS(), "rpc": k.rpcTS(), "base": k.tsBase(), "req": k.tsReq, "client_opts": cl, "call_opts": call, "url_props": k.urlProps}
			if decoy != nil {
				base["decoy_opts"] = decoy
			}
			a := map[string]any{"op": "ts_call", "canned": dummy}
			t := map[string]any{"op": "ts_ts", "handler": map[string]any{"kind": "ok", "resp": k.tsResp}}
			for kk, v := range base {
				a[kk], t[kk] = v, v
			}
			ops = append(ops, a, t)
			refs = append(refs, ref{k, "tgA"}, ref{k, "tt"})
		}
		var hvals []string
		seenV := map[string]bool{}
		for _, k := range sc.cases {
			for _, u := range k.hdrs {
				if !seenV[u.value] {
					seenV[u.value] = true
					hvals = append(hvals, u.value)
				}
			}
		}
		ops = append(ops, map[string]any{"op": "js_lib", "values": hvals})
		load, outs, err := td.Run(id, sc.clientTS, sc.serverTS, ops, 3*time.Minute)
		if err != nil {
			fail(err)
			return
		}
		sc.jsNum = map[string]bool{}
		for j, v := range asList(outs[len(outs)-1]["number_ok"]) {
			if j < len(hvals) {
				sc.jsNum[hvals[j]] = v == true
			}
		}
		sc.load = load
		sc.clientOK = mapOf(load["client"])["ok"] == true
		sc.serverOK = mapOf(load["server"])["ok"] == true
		for j, rf := range refs {
			if rf.what == "tgA" {
				rf.k.tgA = outs[j]
			} else {
				rf.k.tt = outs[j]
			}
		}
		if !goOK {
			return
		}
		// pass 2 (go): capture the Go client's request; serve the TS client's request
		var gops []any
		var grefs []ref
		for _, k := range sc.cases {
			op := map[string]any{"op": "call", "rpc": k.rpcGo(), "req_type": strings.TrimPrefix(k.mi.m.Input, "."), "req": jsonRaw(gen.PJ(k.reqMsg)),
				"canned_status": 200, "canned_headers": [][2]string{{"Content-Type", "application/json"}}, "canned_body": b64s("{}"), "handler": map[string]any{"kind": "ok"}}
			k.goOptions(op)
			gops = append(gops, op)
			grefs = append(grefs, ref{k, "gtA"})
			if f := firstFetch(k.tgA); f != nil {
				body, _ := f["body"].(string)
				sop := map[string]any{"op": "serve", "method": f["method"], "url": f["target"], "headers": pairsOf(f["headers"]), "body": b64s(body),
					"handler": map[string]any{"kind": "ok", "resp": jsonRaw(gen.PJ(k.respMsg))}, "expect": jsonRaw(gen.PJ(k.reqMsg))}
				gops = append(gops, sop)
				grefs = append(grefs, ref{k, "tgB"})
			}
		}
		gouts, err := runItem(sc.x, gops)
		if err != nil {
			fail(err)
			return
		}
		for j, rf := range grefs {
			if rf.what == "gtA" {
				rf.k.gtA = gouts[j]
			} else {
				rf.k.tgB = gouts[j]
			}
		}
		// pass 3 (node): the TS server serves the Go client's request; the TS client gets the Go server's answer
		ops, refs = nil, nil
		for _, k := range sc.cases {
			if w := firstWire(k.gtA); w != nil && sc.serverOK {
				ops = append(ops, map[string]any{"op": "ts_serve", "method": w["method"], "url": w["target"], "headers": pairsOf(w["headers"]), "body": unb64(w["body"]),
					"handler": map[string]any{"kind": "ok", "resp": k.tsResp}})
				refs = append(refs, ref{k, "gtB"})
			}
			if k.tgB != nil && k.tgB["status"] != nil {
				cl, call := k.tsOptions()
				canned := map[string]any{"status": jsonInt(k.tgB["status"]), "headers": [][2]string{{"content-type", fmt.Sprint(k.tgB["ct"])}}, "body": unb64(k.tgB["body"])}
				ops = append(ops, map[string]any{"op": "ts_call", "svc": k.svcTS(), "rpc": k.rpcTS(), "base": k.tsBase(), "req": k.tsReq, "client_opts": cl, "call_opts": call, "canned": canned})
				refs = append(refs, ref{k, "tgC"})
			}
		}
		if len(ops) > 0 {
			_, outs, err = td.Run(id, sc.clientTS, sc.serverTS, ops, 3*time.Minute)
			if err != nil {
				fail(err)
				return
			}
			for j, rf := range refs {
				if rf.what == "gtB" {
					rf.k.gtB = outs[j]
				} else {
					rf.k.tgC = outs[j]
				}
			}
		}
		// pass 4 (go): the Go client gets the TS server's answer
		gops, grefs = nil, nil
		for _, k := range sc.cases {
			if k.gtB == nil || k.gtB["status"] == nil {
				continue
			}
			body, _ := k.gtB["body"].(string)
			op := map[string]any{"op": "call", "rpc": k.rpcGo(), "req_type": strings.TrimPrefix(k.mi.m.Input, "."), "req": jsonRaw(gen.PJ(k.reqMsg)),
				"canned_status": jsonInt(k.gtB["status"]), "canned_headers": pairsOf(k.gtB["headers"]), "canned_body": b64s(body),
				"handler": map[string]any{"kind": "ok", "resp": jsonRaw(gen.PJ(k.respMsg))}}
			k.goOptions(op)
			gops = append(gops, op)
			grefs = append(grefs, ref{k, "gtC"})
		}
		if len(gops) > 0 {
			gouts, err = runItem(sc.x, gops)
			if err != nil {
				fail(err)
				return
			}
			for j, rf := range grefs {
				rf.k.gtC = gouts[j]
			}
		}
	})
	return firstErr
}

func firstFetch(o map[string]any) map[string]any {
	if o == nil {
		return nil
	}
	fs := asList(o["fetches"])
	if len(fs) == 0 {
		return nil
	}
	return mapOf(fs[0])
}

func firstWire(o map[string]any) map[string]any {
	if o == nil {
		return nil
	}
	ws := asList(o["wire"])
	if len(ws) == 0 {
		return nil
	}
	return mapOf(ws[0])
}

// ---------------------------------------------------------------------------------------------
// judging

// tsHandlerSeen reads what the TS server side recorded: (number of handler invocations, right
// handler?, argument).
func tsHandlerSeen(k *c08Case, calls any) (int, bool, any) {
	cs := asList(calls)
	if len(cs) == 0 {
		return 0, false, nil
	}
	c0 := mapOf(cs[0])
	return len(cs), c0["svc"] == k.svcTS() && c0["rpc"] == k.rpcTS(), c0["arg"]
}

// violationNames: does a 400 body ({"violations":[{"field":…}]}) blame the header `name`?
func violationNames(body any, name string) bool {
	for _, v := range asList(mapOf(body)["violations"]) {
		if strings.EqualFold(fmt.Sprint(mapOf(v)["field"]), name) {
			return true
		}
	}
	return false
}

func (k *c08Case) wantReached() bool { return k.scenario == "ok" }

// judge one direction. who: request sender's view.
func (k *c08Case) judgeTG() c08Obs {
	f := firstFetch(k.tgA)
	if k.tgA == nil || k.tgA["harness_err"] != nil || f == nil {
		return c08Obs{symptom: fmt.Sprintf("the TS client did not issue a request: %v", clip(canon(k.tgA), 300))}
	}
	if n := len(asList(k.tgA["fetches"])); n != 1 {
		return c08Obs{symptom: fmt.Sprintf("the TS client issued %d requests", n)}
	}
	if k.tgB == nil {
		return c08Obs{symptom: "the Go server was not run"}
	}
	called := jsonInt(k.tgB["called"])
	status := jsonInt(k.tgB["status"])
	threw := k.tgC != nil && k.tgC["threw"] == true
	if !k.wantReached() {
		if called == 0 && status == 400 && threw && violationNames(k.tgB["body_json"], k.victim) {
			return c08Obs{good: true}
		}
		return c08Obs{symptom: fmt.Sprintf("a request with a %s header %s: Go server status %d (%s), handler invoked %d times, TS client threw=%v", k.scenario, k.victim, status, clip(unb64(k.tgB["body"]), 160), called, threw)}
	}
	switch {
	case called != 1:
		return c08Obs{symptom: fmt.Sprintf("Go handler invoked %d times (status %d, body %s)", called, status, clip(unb64(k.tgB["body"]), 160))}
	case k.tgB["rpc"] != k.rpcGo():
		return c08Obs{symptom: fmt.Sprintf("reached Go handler %v", k.tgB["rpc"])}
	case k.tgB["seen_eq"] != true:
		return c08Obs{symptom: fmt.Sprintf("Go handler saw %s, the caller passed %s", clip(canon(k.tgB["seen"]), 240), clip(string(gen.PJ(k.reqMsg)), 240))}
	case k.tgC == nil || threw:
		return c08Obs{symptom: fmt.Sprintf("TS client threw on the Go server's answer (status %d): %v", status, clip(canon(mapOf(k.tgC)["error"]), 200))}
	}
	if ok, why := sameMessage(k.tgC["result"], k.respMsg); !ok {
		return c08Obs{symptom: "TS caller's result " + why}
	}
	return c08Obs{good: true}
}

func (k *c08Case) judgeServedByTS(served map[string]any, calls any, status int) (bool, string) {
	n, right, arg := tsHandlerSeen(k, calls)
	if !k.wantReached() {
		if n == 0 && status == 400 && violationNames(canonJSONBytes([]byte(fmt.Sprint(served["body"]))), k.victim) {
			return true, ""
		}
		return false, fmt.Sprintf("a request with a %s header %s: TS server status %d (%s), handler invoked %d times", k.scenario, k.victim, status, clip(fmt.Sprint(served["body"]), 160), n)
	}
	switch {
	case n != 1:
		return false, fmt.Sprintf("TS handler invoked %d times (status %d, matched %s, body %s)", n, status, clip(canon(served["matched"]), 120), clip(fmt.Sprint(served["body"]), 160))
	case !right:
		return false, fmt.Sprintf("reached TS handler %v", clip(canon(asList(calls)[0]), 120))
	}
	if ok, why := sameMessage(arg, k.reqMsg); !ok {
		return false, "TS handler's request " + why + " (argument " + clip(canon(arg), 240) + ")"
	}
	if status != 200 {
		return false, fmt.Sprintf("TS server answered %d", status)
	}
	return true, ""
}

func (k *c08Case) judgeGT() c08Obs {
	w := firstWire(k.gtA)
	if k.gtA == nil || w == nil {
		return c08Obs{symptom: fmt.Sprintf("the Go client did not issue a request: %v", clip(canon(k.gtA), 300))}
	}
	if k.gtB == nil {
		return c08Obs{symptom: "the TS server was not run"}
	}
	if f, _ := k.gtB["fault"].(string); f != "" {
		return c08Obs{symptom: "the TS server side faulted: " + f}
	}
	status := jsonInt(k.gtB["status"])
	if ok, why := k.judgeServedByTS(k.gtB, k.gtB["calls"], status); !ok {
		return c08Obs{symptom: why}
	}
	if k.gtC == nil {
		return c08Obs{symptom: "the Go client was not given the TS server's answer"}
	}
	if !k.wantReached() {
		if k.gtC["err"] != nil {
			return c08Obs{good: true}
		}
		return c08Obs{symptom: "the Go client returned no error for a 400 answer"}
	}
	if k.gtC["err"] != nil {
		return c08Obs{symptom: fmt.Sprintf("Go client returned an error on the TS server's answer: %v", clip(canon(k.gtC["err"]), 200))}
	}
	if k.gtC["got_eq"] != true {
		return c08Obs{symptom: fmt.Sprintf("Go caller got %s, the handler returned %s", clip(canon(k.gtC["got"]), 240), clip(string(gen.PJ(k.respMsg)), 240))}
	}
	return c08Obs{good: true}
}

func (k *c08Case) judgeTT() c08Obs {
	f := firstFetch(k.tt)
	if k.tt == nil || k.tt["harness_err"] != nil || f == nil {
		return c08Obs{symptom: fmt.Sprintf("the TS client did not issue a request: %v", clip(canon(k.tt), 300))}
	}
	resp := mapOf(f["response"])
	status := jsonInt(resp["status"])
	if ok, why := k.judgeServedByTS(map[string]any{"matched": f["matched"], "body": resp["body"]}, k.tt["calls"], status); !ok {
		return c08Obs{symptom: why}
	}
	threw := k.tt["threw"] == true
	if !k.wantReached() {
		if threw {
			return c08Obs{good: true}
		}
		return c08Obs{symptom: "the TS client did not throw on a 400 answer"}
	}
	if threw {
		return c08Obs{symptom: fmt.Sprintf("TS client threw: %v", clip(canon(k.tt["error"]), 200))}
	}
	if ok, why := sameMessage(k.tt["result"], k.respMsg); !ok {
		return c08Obs{symptom: "TS caller's result " + why}
	}
	return c08Obs{good: true}
}

func tsKindOf(kind string) string {
	switch kind {
	case "string":
		return "string"
	case "bool":
		return "boolean"
	case "int64", "uint64", "sint64", "fixed64", "sfixed64":
		return "int64"
	}
	return "number"
}

func sortedPairsOfMap(m map[string]any) [][2]string {
	out := [][2]string{}
	for _, k := range sortedKeys(m) {
		out = append(out, [2]string{k, fmt.Sprint(m[k])})
	}
	return out
}

// modelOp is the `c08_case` question for the Lean driver.
func (k *c08Case) modelOp() map[string]any {
	mi := k.mi
	md := k.reqMsg.Descriptor()
	var tpl []any
	for _, seg := range strings.Split(mi.template, "/")[1:] {
		if strings.HasPrefix(seg, "{") && strings.HasSuffix(seg, "}") {
			tpl = append(tpl, map[string]any{"var": seg[1 : len(seg)-1]})
		} else {
			tpl = append(tpl, map[string]any{"lit": seg})
		}
	}
	strs := mapOf(mapOf(k.tgA)["strings"])
	var fields []any
	for _, f := range mi.in.Fields {
		if !mi.isURLBound(f.Name) {
			continue
		}
		fd := md.Fields().ByName(protoreflect.Name(f.Name))
		goText := sprintField(fd, k.reqMsg.Get(fd))
		isPath := f.Ann.Query == nil
		for _, v := range mi.pathVars {
			if v == f.Name {
				isPath = true
			}
		}
		fj := map[string]any{"name": f.Name, "is_path": isPath, "kind": tsKindOf(f.Kind), "go_text": bytesList(goText),
			"go_sent": !isZeroScalar(fd, k.reqMsg.Get(fd)), "qname": f.Name, "required": false}
		if !isPath {
			fj["qname"] = mi.queryName(f)
			fj["required"] = f.Ann.Query.Required
		}
		if t, ok := strs[f.JSON()].(string); ok {
			fj["text"] = bytesList(t)
		} else if strs == nil {
			fj["text"] = bytesList(goText)
		}
		fields = append(fields, fj)
	}
	cl, call := k.tsOptions()
	dh, ch := mapOf(cl["defaultHeaders"]), mapOf(call["headers"])
	delete(cl, "defaultHeaders")
	delete(call, "headers")
	gop := map[string]any{}
	k.goOptions(gop)
	var goPairs [][2]string
	for _, key := range []string{"default_headers", "helper_default", "call_headers", "helper_call"} {
		if ps, ok := gop[key].([][2]string); ok {
			goPairs = append(goPairs, ps...)
		}
	}
	goPairs = append([][2]string{{"Content-Type", "application/json"}}, goPairs...)
	intended := [][2]string{}
	libs := []any{}
	for _, u := range k.hdrs {
		intended = append(intended, [2]string{u.h.Name, u.value})
		l := libVerdicts(u.value)
		l["value"] = u.value
		l["js_number"] = k.sc.jsNum[u.value]
		libs = append(libs, l)
	}
	return map[string]any{"op": "c08_case", "template": orEmpty(tpl), "verb": mi.verb, "fields": orEmpty(fields), "scenario": k.scenario,
		"server_loads": len(k.sc.tsDefects) == 0,
		"headers": map[string]any{"service": hspecs(mi.svc.Headers), "method": hspecs(mi.m.Headers),
			"ts": map[string]any{"defaults": sortedPairsOfMap(dh), "client_opts": sortedPairsOfMap(cl), "call_headers": sortedPairsOfMap(ch), "call_opts": sortedPairsOfMap(call)},
			"go": orEmptyPairs(goPairs), "intended": intended, "libs": libs}}
}

var c08DefectClasses = map[string]bool{"path_value_dot_segment": true, "ts_header_option_shared": true, "required_query_zero_value": true,
	"required_query_on_body_verb": true, "ts_server_bool_path_param_is_string": true, "ts_server_absent_64bit_query_is_empty_string": true,
	"ts_server_module_does_not_load": true}

func bytesToString(v any) (string, bool) {
	l, ok := v.([]any)
	if !ok {
		return "", false
	}
	b := make([]byte, 0, len(l))
	for _, e := range l {
		b = append(b, byte(jsonInt(e)))
	}
	return string(b), true
}

// modelPathParams reads [[nameBytes, valueBytes|null],…] from the driver.
func modelPathParams(v any) map[string]any {
	out := map[string]any{}
	for _, e := range asList(mapOf(v)["path_params"]) {
		p := asList(e)
		if len(p) != 2 {
			continue
		}
		n, _ := bytesToString(p[0])
		if s, ok := bytesToString(p[1]); ok {
			out[n] = s
		} else {
			out[n] = nil
		}
	}
	return out
}

func c08Judge(c *Ctx, scs []*c08Schema, driver bool) {
	res := c.Res
	debug := os.Getenv("VERIF_C08_DEBUG") != ""
	tally := map[string]int{}
	example := map[string]string{}
	var all []*c08Case
	for _, sc := range scs {
		all = append(all, sc.cases...)
	}
	if driver {
		var dops []map[string]any
		for _, k := range all {
			dops = append(dops, k.modelOp())
		}
		douts, err := drv.Run(dops)
		if err != nil {
			res.Corr("driver", "Lean driver failed: "+err.Error(), nil)
			driver = false
		} else {
			for i, k := range all {
				k.model = douts[i]
			}
		}
	}
	for _, sc := range scs {
		tag := fmt.Sprintf("[%s #%d]", sc.kind, sc.idx)
		if debug {
			fmt.Fprintf(os.Stderr, "%s go built=%v generr=%q client ok=%v server ok=%v load=%s predicted=%v\n", tag, sc.x.it.Built, sc.x.it.GenErr, sc.clientOK, sc.serverOK, clip(canon(sc.load), 300), sc.tsDefects)
		}
		res.Count("schema:" + sc.kind)
		sreplay := map[string]any{"schema": sc.req, "load": sc.load}
		if !sc.x.it.Built {
			res.Violation("build", tag+" a schema generated to be valid does not build in Go: "+sc.x.it.GenErr+firstLines(sc.x.it.BuildLog, 8), sreplay)
		}
		// ---- the modules load ----
		for _, side := range []struct {
			name   string
			genErr string
			src    string
			ok     bool
			pred   []string
		}{{"client", sc.clientErr, sc.clientSrc, sc.clientOK, nil}, {"server", sc.serverErr, sc.serverSrc, sc.serverOK, sc.tsDefects}} {
			res.Case(map[string]any{"schema": hashStr(sc.req.ShapeKey()), "load": side.name}, true)
			if side.src == "" {
				res.Violation("ts_refused:"+side.name, fmt.Sprintf("%s ts-%s refused a schema the Go plugins accept: %s", tag, side.name, side.genErr), sreplay)
				continue
			}
			if side.ok {
				if driver && len(side.pred) > 0 {
					res.Corr("ts_load", fmt.Sprintf("%s the %s module loads although the model predicts %v", tag, side.name, side.pred), sreplay)
				} else if driver {
					res.CorrAgree()
				}
				continue
			}
			lr := mapOf(sc.load[side.name])
			msg := fmt.Sprintf("%v: %v", lr["name"], lr["message"])
			if side.name == "server" && strings.Contains(msg, "Identifier 'url' has already been declared") {
				agrees := driver && contains(side.pred, "ts_server_duplicate_const_url")
				if driver && !agrees {
					res.Corr("ts_load", tag+" the server module fails to load with a duplicate `const url`, which the model does not predict", sreplay)
				} else if driver {
					res.CorrAgree()
				}
				res.Divergence("ts_server_module_does_not_load", fmt.Sprintf("%s the emitted *_server.ts does not load (%s): no RPC of the file can be served by the TS server", tag, msg), agrees, sreplay)
			} else {
				res.Divergence("ts_load:"+side.name+":"+regexp.MustCompile(`'[^']*'`).ReplaceAllString(msg, "'…'"), fmt.Sprintf("%s the emitted %s module does not load: %s", tag, side.name, msg), false, sreplay)
			}
		}
		for _, k := range sc.cases {
			type d struct {
				name string
				run  bool
			}
			dirs := []d{{"ts_go", sc.clientOK && sc.x.it.Built}, {"go_ts", sc.serverOK && sc.x.it.Built}, {"ts_ts", sc.clientOK && sc.serverOK}}
			for _, dir := range dirs {
				if !dir.run {
					tally[dir.name+" | not run"]++
					res.Count("not_run:" + dir.name)
					continue
				}
				var o c08Obs
				var real any
				switch dir.name {
				case "ts_go":
					o = k.judgeTG()
					real = map[string]any{"ts_client_request": k.tgA, "go_server": k.tgB, "ts_client_result": k.tgC}
				case "go_ts":
					o = k.judgeGT()
					real = map[string]any{"go_client_request": k.gtA, "ts_server": k.gtB, "go_client_result": k.gtC}
				default:
					o = k.judgeTT()
					real = k.tt
				}
				res.Case(map[string]any{"schema": sc.idx, "rpc": k.rpcGo(), "dir": dir.name, "scenario": k.scenario, "req": hashStr(string(gen.PJ(k.reqMsg))), "hdrs": fmt.Sprint(k.hdrs)}, true)
				res.Count("dir:" + dir.name)
				res.Count("verb:" + k.mi.verb)
				res.Count("scenario:" + k.scenario)
				if len(k.mi.pathVars) > 0 && len(k.mi.query) > 0 {
					res.Count("route:path+query:" + k.mi.verb)
				}
				for _, u := range k.hdrs {
					res.Count("header_via:" + u.mech)
				}
				replay := map[string]any{"schema": sc.req, "rpc": k.rpcGo(), "direction": dir.name, "scenario": k.scenario, "victim": k.victim,
					"request": jsonRaw(gen.PJ(k.reqMsg)), "response": jsonRaw(gen.PJ(k.respMsg)), "ts_request_object": k.tsReq, "headers": fmt.Sprint(k.hdrs), "real": real, "impl": k.model}
				// ---- correspondence ----
				implAgrees := false
				outcome := ""
				if driver && k.model != nil {
					outcome, _ = k.model[dir.name].(string)
					expected := "ok"
					if k.scenario != "ok" {
						expected = "rejected_headers"
					}
					implAgrees = (outcome == expected) == o.good
					if why := k.fineCorrespondence(dir.name); why != "" {
						implAgrees = false
						res.Corr("c08:"+dir.name, fmt.Sprintf("%s %s %s: %s", tag, k.mi.verb, k.mi.template, why), replay)
					} else if !implAgrees {
						res.Corr("c08_outcome:"+dir.name, fmt.Sprintf("%s %s %s (%s): real: %s; the model predicts %s", tag, k.mi.verb, k.mi.template, k.scenario, orOK(o), outcome), replay)
					} else {
						res.CorrAgree()
					}
				}
				key := dir.name + " | " + k.scenario + fmt.Sprintf(" dot=%v shared=%v", k.dot, len(k.shared) > 0) + " | " + outcome + " | "
				if o.good {
					key += "good"
				} else {
					sym := regexp.MustCompile(`[0-9]+|"[^"]*"|\{.*`).ReplaceAllString(o.symptom, "#")
					key += clip(sym, 90)
					if example[key] == "" {
						example[key] = fmt.Sprintf("%s %s %s dot=%v shared=%v: %s", tag, k.mi.verb, k.mi.template, k.dot, k.shared, o.symptom)
					}
				}
				tally[key]++
				// ---- oracle ----
				if o.good {
					continue
				}
				dkey := "roundtrip:" + dir.name
				if c08DefectClasses[outcome] {
					dkey = outcome
				}
				res.Count("divergence:" + dkey)
				res.Divergence(dkey, fmt.Sprintf("%s %s %s %s (%s): %s", tag, dir.name, k.mi.verb, k.mi.template, k.scenario, o.symptom), implAgrees && c08DefectClasses[outcome], replay)
			}
		}
	}
	if debug {
		var ks []string
		for k := range tally {
			ks = append(ks, k)
		}
		sort.Strings(ks)
		for _, k := range ks {
			fmt.Fprintf(os.Stderr, "%6d  %s\n", tally[k], k)
			if example[k] != "" {
				fmt.Fprintf(os.Stderr, "        e.g. %s\n", example[k])
			}
		}
	}
}

func orOK(o c08Obs) string {
	if o.good {
		return "as the property demands"
	}
	return o.symptom
}

// fineCorrespondence compares what the model says each side writes / extracts with the real
// artefacts of one direction; "" when they agree.
func (k *c08Case) fineCorrespondence(dir string) string {
	m := k.model
	switch dir {
	case "ts_go", "ts_ts":
		src := k.tgA
		if dir == "ts_ts" {
			src = k.tt
		}
		f := firstFetch(src)
		if f == nil {
			return ""
		}
		raw, _ := f["raw_url"].(string)
		if want := "http://h.test" + fmt.Sprint(m["ts_raw_target"]); raw != want {
			return fmt.Sprintf("the TS client wrote the URL %q, the model says %q", raw, want)
		}
		if t, _ := f["target"].(string); t != fmt.Sprint(m["ts_fetch_target"]) {
			return fmt.Sprintf("fetch would request %q, the model says %q", t, m["ts_fetch_target"])
		}
		if got, want := canon(f["init_headers"]), canon(m["ts_headers"]); got != want {
			return fmt.Sprintf("the TS client passed the headers %s to fetch, the model says %s", got, want)
		}
		if dir == "ts_ts" {
			if cs := asList(k.tt["calls"]); len(cs) > 0 {
				if got, want := canon(mapOf(cs[0])["path_params"]), canon(modelPathParams(m["ts_on_ts"])); got != want {
					return fmt.Sprintf("the TS server extracted the path parameters %s, the model says %s", got, want)
				}
			}
		}
	case "go_ts":
		w := firstWire(k.gtA)
		if w == nil {
			return ""
		}
		if t, _ := w["target"].(string); t != fmt.Sprint(m["go_target"]) {
			return fmt.Sprintf("the Go client requested %q, the model says %q", t, m["go_target"])
		}
		if cs := asList(mapOf(k.gtB)["calls"]); len(cs) > 0 {
			if got, want := canon(mapOf(cs[0])["path_params"]), canon(modelPathParams(m["ts_on_go"])); got != want {
				return fmt.Sprintf("the TS server extracted the path parameters %s, the model says %s", got, want)
			}
		}
	}
	return ""
}
