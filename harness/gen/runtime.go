package gen

import (
	"fmt"
	"strings"

	"verif/harness/ir"
)

// RuntimeOpts steer GenRuntimeFile: schemas whose emitted Go compiles, for the properties that
// run the generated server and client.
type RuntimeOpts struct {
	Headers     bool
	Rules       bool // buf.validate rules on some body fields
	ErrorTypes  bool // messages named *Error (custom error types)
	ManyMethods bool
	// TrailingSlash sometimes ends an RPC path with "/".
	TrailingSlash bool
	// RenamedQuery sometimes gives a query parameter a wire name different from its field name.
	RenamedQuery bool
	// OptionalPath sometimes binds a path variable to a proto3 `optional` field (a pointer in the
	// generated Go struct) and to names protoc-gen-go spells differently from a naive CamelCase.
	OptionalPath bool
	// RepeatedQuery sometimes makes a query-bound field `repeated` (every occurrence of the
	// parameter is one element). The unchanged Go client does not compile for such fields, so
	// only server-side checks may ask for it.
	RepeatedQuery bool
	// OverrideServiceHeader: in GenMultiServiceFile some methods re-declare a service header with
	// another type / format.
	OverrideServiceHeader bool
	// BytesRules puts a max_len rule (raw bytes) on singular bytes body fields.
	BytesRules bool
	// JSONNames gives some request fields (path-, query- and body-bound) an explicit json_name.
	JSONNames bool
	// AnnotatedBodies puts JSON-mapping annotations whose Go codecs round-trip every value exactly
	// (int64_encoding=NUMBER, bytes_encoding, nullable) on fields of the reply and of the request bodies,
	// so that the messages on the wire have a generated MarshalJSON / UnmarshalJSON of their own.
	AnnotatedBodies bool
	// WellKnown adds fields of the dynamically typed well-known types (google.protobuf.Value, Struct,
	// ListValue) to the reply and to request bodies: an UNSET Value and an explicit JSON null are different
	// messages.
	WellKnown bool
	// FlattenHome (GenMultiServiceFile): the `home` child of some request bodies of the extra services is
	// flattened (`home_` prefix): their generated MarshalJSON runs on every JSON call.
	FlattenHome bool
	// ReorderPathFields: with two or more path variables the bound fields are sometimes DECLARED in the reverse of
	// the order in which the path names them (`message R { string post_id = 1; string user_id = 2; }` for
	// `/users/{user_id}/posts/{post_id}`).
	ReorderPathFields bool
	// BareMethod: one more RPC that carries no (sebuf.http.config) at all and whose request has query-annotated fields.
	BareMethod bool
	// SharedRequest (GenMultiServiceFile): one more service whose routes take the SAME request message with DIFFERENT
	// sets of path variables (the variable missing from a path travels in the body): whatever is derived per route
	// must not be remembered per message.
	SharedRequest bool
	// OddBasePaths: (also: a literal segment spelled like a path variable sometimes precedes its placeholder.)
	// The service base path is sometimes spelled non-canonically but legally: with a trailing slash
	// (`/api/v1/`) or as the bare root (`/`) — every generator normalises the join of base path and method path.
	OddBasePaths bool
	// OptionalQuery: some singular query-bound fields carry the proto3 `optional` keyword (a pointer in the generated
	// Go struct: the unchanged Go client does not compile for them, so only server-side checks may ask for it) —
	// `required` on such a parameter still means "the URL must carry it".
	OptionalQuery bool
}

var urlFieldNames = []string{"user_id", "org", "page", "q", "name", "ratio", "flag", "item_id", "limit", "cursor", "since", "tenant_name"}

// kinds the emitted Go client compiles for in query position (zero-value comparison)
var queryKinds = []string{"string", "int32", "int64", "uint32", "uint64", "bool", "sint32", "sint64", "fixed32", "fixed64", "sfixed32", "sfixed64", "float", "double"}

// GenRuntimeFile builds a file with one service whose RPCs cover every verb, path variables,
// query parameters and rich bodies; every RPC has an explicit path under a base path, paths are
// pairwise non-overlapping (documented precondition).
func GenRuntimeFile(r *R, idx int, o RuntimeOpts) *ir.Request {
	pkg := "rt.v1"
	f := &ir.File{Name: fmt.Sprintf("rt%d/api.proto", idx), Package: pkg, GoPackage: "example.com/gen/rt/v1;rtv1"}
	P := "." + pkg + "."
	// shared types
	leaf := &ir.Message{Name: "Leaf", Fields: []*ir.Field{{Name: "street", Number: 1, Kind: "string"}, {Name: "zip_code", Number: 2, Kind: "int32"}}}
	en := &ir.Enum{Name: "Color", Values: []ir.EnumValue{{Name: "COLOR_UNSPECIFIED", Number: 0}, {Name: "COLOR_RED", Number: 1}, {Name: "COLOR_BLUE", Number: 2}}}
	f.Enums = append(f.Enums, en)
	resp := &ir.Message{Name: "Reply", Fields: []*ir.Field{
		{Name: "id", Number: 1, Kind: "string"},
		{Name: "count", Number: 2, Kind: "int64"},
		{Name: "ok", Number: 3, Kind: "bool"},
		{Name: "tags", Number: 4, Kind: "string", Card: "repeated"},
		{Name: "attrs", Number: 5, Kind: "string", Card: "map", MapKey: "string"},
		{Name: "leaf", Number: 6, Kind: "message", TypeName: P + "Leaf"},
		{Name: "color", Number: 7, Kind: "enum", TypeName: P + "Color"},
		{Name: "blob", Number: 8, Kind: "bytes"},
		{Name: "at", Number: 9, Kind: "message", TypeName: tsType},
		{Name: "score", Number: 10, Kind: "double"},
		{Name: "maybe", Number: 11, Kind: "int32", Card: "optional"},
		{Name: "u", Number: 12, Kind: "uint64"},
	}}
	if o.WellKnown {
		resp.Fields = append(resp.Fields,
			&ir.Field{Name: "extra", Number: 13, Kind: "message", TypeName: ".google.protobuf.Value"},
			&ir.Field{Name: "meta", Number: 14, Kind: "message", TypeName: ".google.protobuf.Struct"},
			&ir.Field{Name: "items", Number: 15, Kind: "message", TypeName: ".google.protobuf.Value", Card: "repeated"})
	}
	if o.AnnotatedBodies {
		// ONE annotation kind per message: two kinds on one message each emit their own MarshalJSON
		// (a recorded C13 finding)
		tr := true
		kind := r.Intn(3)
		for _, fl := range resp.Fields {
			switch {
			case kind == 0 && (fl.Name == "count" || fl.Name == "u"):
				fl.Ann.Int64Enc = "NUMBER"
			case kind == 1 && fl.Name == "blob":
				fl.Ann.BytesEnc = Pick(r, []string{"HEX", "BASE64URL", "BASE64_RAW"})
			case kind == 2 && fl.Name == "maybe":
				fl.Ann.Nullable = &tr
			}
		}
	}
	f.Messages = append(f.Messages, leaf, resp)
	svc := &ir.Service{Name: "Api", BasePath: Pick(r, []string{"/api/v1", "/v2", "/svc"})}
	if o.OddBasePaths {
		svc.BasePath = []string{"/", "/api/v1/", "/v2", "/svc/"}[idx%4]
	}
	verbs := []string{"GET", "POST", "PUT", "DELETE", "PATCH"}
	nm := 5
	if o.ManyMethods {
		nm = 8
	}
	for i := 0; i < nm; i++ {
		verb := verbs[i%5]
		if i >= 5 {
			verb = Pick(r, verbs)
		}
		in := &ir.Message{Name: fmt.Sprintf("Req%d", i)}
		used := map[string]bool{}
		no := int32(1)
		nvars := r.Intn(3)
		if i == 0 {
			nvars = 1 + r.Intn(2)
		}
		path := fmt.Sprintf("/r%d", i)
		for v := 0; v < nvars; v++ {
			pool := urlFieldNames
			if o.OptionalPath {
				pool = append(append([]string{}, urlFieldNames...), "with2digits", "x2_y", "a_1b")
			}
			fn := uniqueName(used, Pick(r, pool))
			pf := &ir.Field{Name: fn, Number: no, Kind: Pick(r, PathScalarKinds)}
			if o.OptionalPath && r.P(1, 3) {
				pf.Card = "optional"
			}
			in.Fields = append(in.Fields, pf)
			no++
			if o.OddBasePaths && r.P(1, 3) {
				// a LITERAL segment spelled like the variable, right before its placeholder (`/email/{email}`): the
				// variable's position is where its braces are, not where its name first occurs
				path += "/" + fn
			}
			path += "/{" + fn + "}"
			if r.Bool() {
				path += fmt.Sprintf("/s%d", v)
			}
		}
		if o.ReorderPathFields && nvars >= 2 && r.Bool() {
			for a, b := 0, len(in.Fields)-1; a < b; a, b = a+1, b-1 {
				in.Fields[a], in.Fields[b] = in.Fields[b], in.Fields[a]
			}
		}
		if o.TrailingSlash && r.P(1, 3) {
			path += "/"
		}
		nq := r.Intn(4)
		if verb == "GET" && nq == 0 {
			nq = 1
		}
		for q := 0; q < nq; q++ {
			fn := uniqueName(used, Pick(r, urlFieldNames))
			qa := &ir.Query{Name: fn, Required: r.P(1, 5)}
			if r.P(1, 3) {
				qa.Name = ""
			}
			if o.RenamedQuery && r.P(1, 2) {
				qa.Name = Pick(r, []string{"q_", "p-", "x"}) + strings.ReplaceAll(fn, "_", "-")
			}
			qf := &ir.Field{Name: fn, Number: no, Kind: Pick(r, queryKinds), Ann: ir.Ann{Query: qa}}
			if o.RepeatedQuery && r.P(1, 3) {
				qf.Card = "repeated"
			}
			if o.OptionalQuery && qf.Card == "" && r.P(1, 3) {
				qf.Card = "optional"
				if r.Bool() {
					qa.Required = true
				}
			}
			in.Fields = append(in.Fields, qf)
			no++
		}
		if verb == "POST" || verb == "PUT" || verb == "PATCH" {
			// body fields of every shape
			body := []*ir.Field{
				{Name: "title", Kind: "string"},
				{Name: "amount", Kind: "int64"},
				{Name: "small", Kind: "int32"},
				{Name: "on", Kind: "bool"},
				{Name: "labels", Kind: "string", Card: "repeated"},
				{Name: "nums", Kind: "sint64", Card: "repeated"},
				{Name: "props", Kind: "int32", Card: "map", MapKey: "string"},
				{Name: "home", Kind: "message", TypeName: P + "Leaf"},
				{Name: "places", Kind: "message", TypeName: P + "Leaf", Card: "repeated"},
				{Name: "by_key", Kind: "message", TypeName: P + "Leaf", Card: "map", MapKey: "int32"},
				{Name: "shade", Kind: "enum", TypeName: P + "Color"},
				{Name: "raw", Kind: "bytes"},
				{Name: "when", Kind: "message", TypeName: tsType},
				{Name: "weight", Kind: "double"},
				{Name: "opt_text", Kind: "string", Card: "optional"},
				{Name: "opt_num", Kind: "uint32", Card: "optional"},
				{Name: "f32", Kind: "float"},
				{Name: "fx", Kind: "fixed64"},
			}
			if o.WellKnown {
				body = append(body, &ir.Field{Name: "dyn", Kind: "message", TypeName: ".google.protobuf.Value"},
					&ir.Field{Name: "dyn_list", Kind: "message", TypeName: ".google.protobuf.ListValue"})
			}
			nb := 2 + r.Intn(6)
			bodyKind := r.Intn(4) // which annotation kind this request message carries (3: none)
			start := r.Intn(len(body))
			for b := 0; b < nb; b++ {
				bf := *body[(start+b*5)%len(body)]
				if used[bf.Name] {
					continue
				}
				used[bf.Name] = true
				bf.Number = no
				no++
				if o.Rules && bf.Kind == "string" && bf.Card == "" && r.Bool() {
					one := uint64(1)
					bf.Rules = &ir.Rules{MinLen: &one}
				}
				if o.BytesRules && bf.Kind == "bytes" && bf.Card == "" {
					// never violated by the generated values (at most 4 raw bytes): the published contract
					// must not turn a RAW-byte bound into a bound on the encoded text
					four := uint64(4)
					bf.Rules = &ir.Rules{MaxLen: &four}
				}
				if o.Rules && bf.Kind == "int32" && bf.Card == "" && r.Bool() {
					z := "0"
					bf.Rules = &ir.Rules{Gte: &z}
				}
				switch {
				case !o.AnnotatedBodies:
				case bodyKind == 0 && (bf.Kind == "int64" || bf.Kind == "fixed64" || bf.Kind == "sint64"):
					bf.Ann.Int64Enc = "NUMBER"
				case bodyKind == 1 && bf.Kind == "bytes":
					bf.Ann.BytesEnc = Pick(r, []string{"HEX", "BASE64URL", "BASE64_RAW"})
				case bodyKind == 2 && bf.Card == "optional":
					tr := true
					bf.Ann.Nullable = &tr
				}
				in.Fields = append(in.Fields, &bf)
			}
			if r.Bool() {
				in.Oneofs = append(in.Oneofs, &ir.Oneof{Name: "pick"})
				in.Fields = append(in.Fields, &ir.Field{Name: "as_text", Number: no, Kind: "string", Oneof: "pick"}, &ir.Field{Name: "as_leaf", Number: no + 1, Kind: "message", TypeName: P + "Leaf", Oneof: "pick"})
				no += 2
			}
		}
		if o.JSONNames {
			for _, fl := range in.Fields {
				if fl.Oneof == "" && r.P(1, 4) {
					fl.JSONName = "x" + ir.JSONName("_"+fl.Name)
				}
			}
		}
		f.Messages = append(f.Messages, in)
		m := &ir.Method{Name: fmt.Sprintf("Op%d", i), Input: P + in.Name, Output: P + "Reply", Config: &ir.HTTPConfig{Path: path, Method: verb}}
		svc.Methods = append(svc.Methods, m)
	}
	if o.BareMethod {
		// an RPC WITHOUT (sebuf.http.config): served as POST on the default path, and its query-annotated fields are
		// bound from the URL like those of any other RPC
		in := &ir.Message{Name: "BareReq", Fields: []*ir.Field{
			{Name: "q", Number: 1, Kind: "string", Ann: ir.Ann{Query: &ir.Query{Name: "q"}}},
			{Name: "limit", Number: 2, Kind: "int32", Ann: ir.Ann{Query: &ir.Query{Name: "limit", Required: true}}},
			{Name: "tag", Number: 3, Kind: "string", Card: "repeated", Ann: ir.Ann{Query: &ir.Query{Name: "tag"}}},
			{Name: "note", Number: 4, Kind: "string"}}}
		if !o.RepeatedQuery {
			in.Fields[2].Card = ""
		}
		f.Messages = append(f.Messages, in)
		svc.Methods = append(svc.Methods, &ir.Method{Name: "BareFind", Input: P + "BareReq", Output: P + "Reply"})
	}
	if o.ErrorTypes {
		f.Messages = append(f.Messages, &ir.Message{Name: "NotFoundError", Fields: []*ir.Field{
			{Name: "resource", Number: 1, Kind: "string"}, {Name: "code", Number: 2, Kind: "int32"}, {Name: "detail", Number: 3, Kind: "message", TypeName: P + "Leaf"}}})
	}
	f.Services = append(f.Services, svc)
	if o.Headers {
		AddHeaders(r.Fork("hdr"), f)
	}
	return &ir.Request{Files: []*ir.File{f}, Generate: []string{f.Name}}
}

// GenErrorFile builds the fixed-shape schema C10 scripts its error sources on: one required
// service header, a GET with an int path variable and a required query parameter, a POST whose
// request carries buf.validate rules at top level, in a child, in repeated and map children,
// and a custom protobuf error type.
func GenErrorFile(r *R, idx int) *ir.Request {
	pkg := Pick(r, []string{"err.v1", "shop.errs"})
	gp := "example.com/gen/err;errpb"
	f := &ir.File{Name: fmt.Sprintf("err%d/api.proto", idx), Package: pkg, GoPackage: gp}
	P := "." + pkg + "."
	one := uint64(1)
	z := "0"
	street := Pick(r, []string{"street", "street_name", "addr2"})
	leaf := &ir.Message{Name: "Leaf", Fields: []*ir.Field{{Name: street, Number: 1, Kind: "string", Rules: &ir.Rules{MinLen: &one}}, {Name: "zip", Number: 2, Kind: "int32"}}}
	reply := &ir.Message{Name: "Reply", Fields: []*ir.Field{{Name: "id", Number: 1, Kind: "string"}, {Name: "n", Number: 2, Kind: "int64"}}}
	getReq := &ir.Message{Name: "GetReq", Fields: []*ir.Field{{Name: "num", Number: 1, Kind: "int32"}, {Name: "must", Number: 2, Kind: "string", Ann: ir.Ann{Query: &ir.Query{Name: "must", Required: true}}},
		// a query parameter whose wire name differs from its field name, of a kind that can fail to parse
		{Name: "limit", Number: 3, Kind: "int32", Ann: ir.Ann{Query: &ir.Query{Name: "page_size"}}},
		{Name: "include_archived", Number: 4, Kind: "bool", Ann: ir.Ann{Query: &ir.Query{Name: "archived"}}}}}
	postReq := &ir.Message{Name: "PostReq", Fields: []*ir.Field{
		{Name: "name", Number: 1, Kind: "string", Rules: &ir.Rules{MinLen: &one}},
		{Name: "qty", Number: 2, Kind: "int32", Rules: &ir.Rules{Gte: &z}},
		{Name: "home", Number: 3, Kind: "message", TypeName: P + "Leaf"},
		{Name: "places", Number: 4, Kind: "message", TypeName: P + "Leaf", Card: "repeated"},
		{Name: "by_key", Number: 5, Kind: "message", TypeName: P + "Leaf", Card: "map", MapKey: "string"},
	}}
	nf := &ir.Message{Name: "NotFoundError", Fields: []*ir.Field{{Name: "resource", Number: 1, Kind: "string"}, {Name: "code", Number: 2, Kind: "int32"},
		{Name: "detail", Number: 3, Kind: "message", TypeName: P + "Leaf"}, {Name: "ids", Number: 4, Kind: "int64", Card: "repeated"}}}
	f.Messages = []*ir.Message{leaf, reply, getReq, postReq, nf}
	f.Services = []*ir.Service{{Name: "Errs", BasePath: "/e", Headers: []ir.Header{{Name: "X-Req", Type: "string", Required: true}},
		Methods: []*ir.Method{
			{Name: "Get", Input: P + "GetReq", Output: P + "Reply", Config: &ir.HTTPConfig{Path: "/g/{num}", Method: "GET"}},
			{Name: "Post", Input: P + "PostReq", Output: P + "Reply", Config: &ir.HTTPConfig{Path: "/p", Method: "POST"}},
		}}}
	return &ir.Request{Files: []*ir.File{f}, Generate: []string{f.Name}}
}
