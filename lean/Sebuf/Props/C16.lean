import Sebuf.Lemmas.Traverse
import Sebuf.Gen.Recursion
/-!
# C16 — every plugin terminates with an answer for every valid descriptor set

The traversals of the message TYPE graph (which may be cyclic) are modelled by `collect`, whose
definition Lean accepts only with a termination proof (the number of unvisited messages
decreases): that accepted definition is the termination theorem for the visited-set guarded
walks of `tscommon.AddMessage` and `openapiv3.collectMessageRecursive`. `Gen.Recursion` lists
every self- or mutually recursive traversal in generator code, regenerated on every run.

Partial by nature: wall time, memory and process exit are runtime; `gen_limits` runs the real
plugins on degenerate descriptor sets under time and memory limits.
-/
namespace Sebuf.C16
open Sebuf

/-- **guarded**: every recursive walk of the type graph consults a guard set before recursing
(since `fix: go-http mock: do not recurse forever on recursive response types` the mock emitter
too; entry `no_answer:go-http:mock_recursive_response`, fixed). Walks of nested declarations and of
a map entry's value field are structurally bounded. -/
theorem guarded : ∀ t ∈ Gen.Recursion.sites, t.2.1 = "fieldgraph" → t.2.2.1 = true := by decide

/-- **visited sets are never released**: the guard of every walk is a visited set kept for the
whole traversal (one visit per message, `collect_visits_once`) — except the mock emitter, whose
guard is scoped to the current path: it terminates on every graph (`mock_guarded_terminates`) but
repeats a shared type once per path (`mock_work_exponential`, an open finding). A walk that starts
releasing its marks (e.g. `defer delete(processed, key)`) fails this theorem. -/
theorem visited_sets_not_released : ∀ t ∈ Gen.Recursion.sites, t.2.1 = "fieldgraph" →
    t.2.2.2 = false ∨ t.1 = "internal/httpgen.generateMockFieldAssignments" := by decide

/-- the guarded walk visits every message at most once, whatever the graph. -/
theorem collect_visits_once (g : Graph) (todo : List Str) : (collect g [] todo).Nodup :=
  collect_nodup g todo

/-- and reaches everything reachable (so the walk is not vacuous). -/
theorem collect_reaches (g : Graph) (todo : List Str) :
    (∀ r ∈ todo, r ∈ collect g [] todo) ∧
    (∀ n ∈ collect g [] todo, ∀ s ∈ succs g n, s ∈ collect g [] todo) :=
  ⟨collect_contains_roots g todo, collect_closed g todo⟩

/-- **exactly the reachable types**: the walk collects a message iff the roots reach it in the type graph (so it
neither misses a type a service needs nor drags in one it does not). -/
theorem collect_exactly_reachable (g : Graph) (todo : List Str) (n : Str) :
    n ∈ collect g [] todo ↔ Reach g todo n :=
  mem_collect_iff g todo n

/-- **the set of collected types does not depend on the order of the roots** (the order in which services and
methods are declared decides the ORDER of discovery only): any two root lists with the same members collect the
same messages. -/
theorem collect_set_order_free (g : Graph) (todo todo' : List Str) (h : ∀ x, x ∈ todo' ↔ x ∈ todo) (n : Str) :
    n ∈ collect g [] todo' ↔ n ∈ collect g [] todo := by
  rw [mem_collect_iff, mem_collect_iff]
  exact ⟨Reach.of_roots_subset (fun x hx => (h x).1 hx), Reach.of_roots_subset (fun x hx => (h x).2 hx)⟩

/-- what the regression looked like: the UNGUARDED recursion the mock emitter had before the repair
never finishes on a self-referential response type, for any amount of fuel (stack). -/
theorem mock_diverges : ∀ fuel, mockAssign [("A".toList, ["A".toList])] fuel "A".toList = Outcome.outOfFuel :=
  mockAssign_diverges_on_self_loop

/-- on acyclic type graphs the same recursion finishes. -/
theorem mock_terminates_acyclic (g : Graph) (root : Str)
    (h : ∃ rank : Str → Nat, ∀ n s, s ∈ succs g n → rank s < rank n) :
    ∃ fuel k, mockAssign g fuel root = Outcome.done k :=
  mockAssign_terminates_on_acyclic g root h

/-- the repair a maintainer would make (skip a message already on the recursion path)
terminates on every graph. -/
theorem mock_guarded_terminates (g : Graph) (path : List Str) (msg : Str) :
    ∃ k, mockAssignGuarded g path msg = Outcome.done k :=
  mockAssignGuarded_done g path msg

/-- **termination is not enough**: on an acyclic response type whose levels each refer to the next
one twice, the unguarded recursion emits a block per PATH: 2^(d+1) - 1 blocks for d levels
(known finding `no_answer:go-http:mock_exponential_on_shared_types`: at 32 levels the plugin
gives no answer within any practical time or memory). -/
theorem mock_work_exponential :
    mockWork (diamond 4) (2 ^ 40) [Char.ofNat 52] = 2 ^ 5 - 1 ∧
    mockWork (diamond 10) (2 ^ 40) [Char.ofNat 58] = 2 ^ 11 - 1 := by decide

/-- the same type graph visited with a visited set costs at most one visit per message
(`collect_visits_once`), whatever its shape. -/
theorem guarded_walk_no_repeat (d : Nat) (root : Str) : (collect (diamond d) [] [root]).Nodup :=
  collect_nodup (diamond d) [root]

end Sebuf.C16
