package gen

import (
	"fmt"
	"strings"

	"verif/harness/ir"
)

func sp(s string) *string { return &s }
func bp(b bool) *bool     { return &b }

// AnnotOpts steer GenAnnotFile.
type AnnotOpts struct {
	// Features enabled (all when nil): int64 enumval enumnum nullable empty ts bytes flatten oneof unwrap
	Features map[string]bool
	// Safe restricts shapes to those the emitted Go is known to compile for (singular,
	// non-optional annotated fields; one MarshalJSON-producing feature per message).
	Safe bool
	// Combos allows two codec features on one message.
	Combos bool
	// NoService omits the service.
	NoService bool
	Pkg       string
	GoPkg     string
	FileName  string
	// MsgPrefix keeps message names distinct across files of one package.
	MsgPrefix string
}

func (o AnnotOpts) on(f string) bool { return o.Features == nil || o.Features[f] }

var allFeatures = []string{"int64", "enumval", "enumnum", "nullable", "empty", "ts", "bytes", "flatten", "oneof", "unwrap", "plain"}

const tsType = ".google.protobuf.Timestamp"

type fileBuilder struct {
	r   *R
	o   AnnotOpts
	f   *ir.File
	n   int
	pfx string // ".pkg."
}

func (b *fileBuilder) msgName(base string) string {
	b.n++
	return fmt.Sprintf("%s%s%d", b.o.MsgPrefix, base, b.n)
}

func (b *fileBuilder) full(name string) string { return b.pfx + name }

func (b *fileBuilder) add(m *ir.Message) *ir.Message {
	b.f.Messages = append(b.f.Messages, m)
	return m
}

// leaf is a small message of plain scalars with assorted field-name shapes.
func (b *fileBuilder) leaf() *ir.Message {
	m := &ir.Message{Name: b.msgName("Leaf")}
	names := []string{"street", "zip_code", "count", "is_set", "label2"}
	kinds := []string{"string", "string", "int32", "bool", "string"}
	n := 1 + b.r.Intn(3)
	start := b.r.Intn(len(names))
	for i := 0; i < n; i++ {
		j := (start + i) % len(names)
		m.Fields = append(m.Fields, &ir.Field{Name: names[j], Number: int32(i + 1), Kind: kinds[j]})
	}
	return b.add(m)
}

func (b *fileBuilder) enum(custom bool) string {
	b.n++
	name := fmt.Sprintf("%sStatus%d", b.o.MsgPrefix, b.n)
	up := strings.ToUpper(name)
	e := &ir.Enum{Name: name, Values: []ir.EnumValue{{Name: up + "_UNSPECIFIED", Number: 0}, {Name: up + "_ACTIVE", Number: 1}, {Name: up + "_GONE", Number: 2}}}
	if custom {
		e.Values[1].Custom = sp("active")
		if b.r.Bool() {
			e.Values[0].Custom = sp("unknown")
		}
		if b.r.Bool() {
			e.Values[2].Custom = sp("gone-away")
		}
	}
	b.f.Enums = append(b.f.Enums, e)
	return b.full(name)
}

func (b *fileBuilder) plainFields(m *ir.Message, startNo int32, n int) int32 {
	kinds := append([]string{}, ir.ScalarKinds...)
	no := startNo
	for i := 0; i < n; i++ {
		k := Pick(b.r, kinds)
		f := &ir.Field{Name: fmt.Sprintf("p%d_%s", no, k), Number: no, Kind: k}
		switch b.r.Intn(6) {
		case 0:
			f.Card = "repeated"
		case 1:
			f.Card = "optional"
		case 2:
			if k != "bytes" && k != "float" && k != "double" {
				// maps: value of kind k keyed by string / int32 / bool
				f.Card = "map"
				f.MapKey = Pick(b.r, []string{"string", "int32", "bool", "uint64"})
			}
		}
		m.Fields = append(m.Fields, f)
		no++
	}
	return no
}

// featureMessage builds one message exercising a feature, valid by construction.
func (b *fileBuilder) featureMessage(feat string) *ir.Message {
	r := b.r
	m := &ir.Message{Name: b.msgName(strings.Title(feat))}
	no := int32(1)
	addPlain := func() {
		if !b.o.Safe || feat != "unwrap" {
			no = b.plainFields(m, no, r.Intn(3))
		}
	}
	switch feat {
	case "plain":
		no = b.plainFields(m, no, 2+r.Intn(4))
		if r.Bool() {
			lf := b.leaf()
			m.Fields = append(m.Fields, &ir.Field{Name: "child", Number: no, Kind: "message", TypeName: b.full(lf.Name)})
			no++
			m.Fields = append(m.Fields, &ir.Field{Name: "kids", Number: no, Kind: "message", TypeName: b.full(lf.Name), Card: "repeated"})
			no++
			m.Fields = append(m.Fields, &ir.Field{Name: "by_name", Number: no, Kind: "message", TypeName: b.full(lf.Name), Card: "map", MapKey: "string"})
			no++
		}
		if r.Bool() {
			m.Fields = append(m.Fields, &ir.Field{Name: "at", Number: no, Kind: "message", TypeName: tsType})
			no++
		}
		if r.Bool() {
			m.Oneofs = append(m.Oneofs, &ir.Oneof{Name: "choice"})
			m.Fields = append(m.Fields, &ir.Field{Name: "as_text", Number: no, Kind: "string", Oneof: "choice"})
			no++
			m.Fields = append(m.Fields, &ir.Field{Name: "as_num", Number: no, Kind: "int64", Oneof: "choice"})
			no++
		}
	case "int64":
		n := 1 + r.Intn(3)
		for i := 0; i < n; i++ {
			k := Pick(r, []string{"int64", "uint64", "sint64", "fixed64", "sfixed64"})
			f := &ir.Field{Name: fmt.Sprintf("big_%d", i), Number: no, Kind: k, Ann: ir.Ann{Int64Enc: "NUMBER"}}
			if r.P(1, 5) {
				f.Ann.Int64Enc = "STRING"
			}
			if !b.o.Safe {
				switch r.Intn(4) {
				case 0:
					f.Card = "repeated"
				case 1:
					f.Card = "optional"
				}
			} else if r.P(1, 3) {
				f.Card = "repeated"
			}
			m.Fields = append(m.Fields, f)
			no++
		}
		addPlain()
	case "enumval", "enumnum":
		en := b.enum(feat == "enumval")
		f := &ir.Field{Name: "status", Number: no, Kind: "enum", TypeName: en}
		if feat == "enumnum" {
			f.Ann.EnumEnc = "NUMBER"
		} else if r.Bool() {
			f.Ann.EnumEnc = "STRING"
		}
		m.Fields = append(m.Fields, f)
		no++
		if r.Bool() {
			m.Fields = append(m.Fields, &ir.Field{Name: "history", Number: no, Kind: "enum", TypeName: en, Card: "repeated", Ann: f.Ann})
			no++
		}
		addPlain()
	case "nullable":
		n := 1 + r.Intn(2)
		for i := 0; i < n; i++ {
			k := Pick(r, []string{"string", "int32", "bool", "int64", "double", "uint32"})
			m.Fields = append(m.Fields, &ir.Field{Name: fmt.Sprintf("maybe_%d", i), Number: no, Kind: k, Card: "optional", Ann: ir.Ann{Nullable: bp(true)}})
			no++
		}
		addPlain()
	case "empty":
		lf := b.leaf()
		for _, eb := range []string{"PRESERVE", "NULL", "OMIT"} {
			if r.P(2, 3) {
				m.Fields = append(m.Fields, &ir.Field{Name: "meta_" + strings.ToLower(eb), Number: no, Kind: "message", TypeName: b.full(lf.Name), Ann: ir.Ann{EmptyBehavior: eb}})
				no++
			}
		}
		if len(m.Fields) == 0 {
			m.Fields = append(m.Fields, &ir.Field{Name: "meta", Number: no, Kind: "message", TypeName: b.full(lf.Name), Ann: ir.Ann{EmptyBehavior: "NULL"}})
			no++
		}
		addPlain()
	case "ts":
		for _, tf := range []string{"RFC3339", "UNIX_SECONDS", "UNIX_MILLIS", "DATE"} {
			if r.P(1, 2) {
				f := &ir.Field{Name: "t_" + strings.ToLower(tf), Number: no, Kind: "message", TypeName: tsType, Ann: ir.Ann{TsFormat: tf}}
				if !b.o.Safe && r.P(1, 5) {
					f.Card = "repeated"
				}
				m.Fields = append(m.Fields, f)
				no++
			}
		}
		if len(m.Fields) == 0 {
			m.Fields = append(m.Fields, &ir.Field{Name: "created_at", Number: no, Kind: "message", TypeName: tsType, Ann: ir.Ann{TsFormat: "UNIX_SECONDS"}})
			no++
		}
		addPlain()
	case "bytes":
		for _, be := range []string{"BASE64", "BASE64_RAW", "BASE64URL", "BASE64URL_RAW", "HEX"} {
			if r.P(1, 2) {
				f := &ir.Field{Name: "b_" + strings.ToLower(be), Number: no, Kind: "bytes", Ann: ir.Ann{BytesEnc: be}}
				if !b.o.Safe && r.P(1, 5) {
					f.Card = Pick(r, []string{"repeated", "optional"})
				}
				m.Fields = append(m.Fields, f)
				no++
			}
		}
		if len(m.Fields) == 0 {
			m.Fields = append(m.Fields, &ir.Field{Name: "blob", Number: no, Kind: "bytes", Ann: ir.Ann{BytesEnc: "HEX"}})
			no++
		}
		addPlain()
	case "flatten":
		lf := b.leaf()
		m.Fields = append(m.Fields, &ir.Field{Name: "title", Number: no, Kind: "string"})
		no++
		f := &ir.Field{Name: "home", Number: no, Kind: "message", TypeName: b.full(lf.Name), Ann: ir.Ann{Flatten: bp(true)}}
		if r.Bool() {
			f.Ann.FlattenPrefix = sp("home_")
		}
		m.Fields = append(m.Fields, f)
		no++
		if r.Bool() {
			lf2 := b.leaf()
			m.Fields = append(m.Fields, &ir.Field{Name: "work", Number: no, Kind: "message", TypeName: b.full(lf2.Name), Ann: ir.Ann{Flatten: bp(true), FlattenPrefix: sp("work_")}})
			no++
		}
	case "oneof":
		flat := r.Bool()
		o := &ir.Oneof{Name: "content", HasConfig: true, Discriminator: sp(Pick(r, []string{"type", "kind", "eventType"})), Flatten: flat}
		m.Oneofs = append(m.Oneofs, o)
		m.Fields = append(m.Fields, &ir.Field{Name: "ident", Number: no, Kind: "string"})
		no++
		v1 := &ir.Message{Name: b.msgName("TextVariant"), Fields: []*ir.Field{{Name: "body", Number: 1, Kind: "string"}, {Name: "lang_code", Number: 2, Kind: "string"}}}
		v2 := &ir.Message{Name: b.msgName("ImageVariant"), Fields: []*ir.Field{{Name: "url", Number: 1, Kind: "string"}, {Name: "width", Number: 2, Kind: "int32"}}}
		b.add(v1)
		b.add(v2)
		f1 := &ir.Field{Name: "text", Number: no, Kind: "message", TypeName: b.full(v1.Name), Oneof: "content"}
		no++
		f2 := &ir.Field{Name: "image", Number: no, Kind: "message", TypeName: b.full(v2.Name), Oneof: "content"}
		no++
		if r.Bool() {
			f1.Ann.OneofValue = sp("txt")
		}
		if r.P(1, 3) {
			f2.Ann.OneofValue = sp("img")
		}
		m.Fields = append(m.Fields, f1, f2)
		if !flat && r.P(1, 3) {
			m.Fields = append(m.Fields, &ir.Field{Name: "code", Number: no, Kind: "int32", Oneof: "content"})
			no++
		}
	case "unwrap":
		switch r.Intn(4) {
		case 0: // root list of scalars
			m.Fields = append(m.Fields, &ir.Field{Name: "items", Number: 1, Kind: Pick(r, []string{"string", "int32", "double"}), Card: "repeated", Ann: ir.Ann{Unwrap: true}})
		case 1: // root list of messages
			lf := b.leaf()
			m.Fields = append(m.Fields, &ir.Field{Name: "items", Number: 1, Kind: "message", TypeName: b.full(lf.Name), Card: "repeated", Ann: ir.Ann{Unwrap: true}})
		case 2: // root map
			if r.Bool() {
				m.Fields = append(m.Fields, &ir.Field{Name: "entries", Number: 1, Kind: "string", Card: "map", MapKey: "string", Ann: ir.Ann{Unwrap: true}})
			} else {
				lf := b.leaf()
				m.Fields = append(m.Fields, &ir.Field{Name: "entries", Number: 1, Kind: "message", TypeName: b.full(lf.Name), Card: "map", MapKey: "string", Ann: ir.Ann{Unwrap: true}})
			}
		default: // map-value unwrap: wrapper with a repeated unwrap field, used as map value elsewhere
			lf := b.leaf()
			w := &ir.Message{Name: b.msgName("BarList"), Fields: []*ir.Field{{Name: "bars", Number: 1, Kind: "message", TypeName: b.full(lf.Name), Card: "repeated", Ann: ir.Ann{Unwrap: true}}}}
			b.add(w)
			m.Fields = append(m.Fields, &ir.Field{Name: "by_symbol", Number: 1, Kind: "message", TypeName: b.full(w.Name), Card: "map", MapKey: "string"})
			if r.Bool() {
				m.Fields = append(m.Fields, &ir.Field{Name: "note", Number: 2, Kind: "string"})
			}
		}
	}
	if len(m.Fields) == 0 {
		m.Fields = append(m.Fields, &ir.Field{Name: "x", Number: 1, Kind: "string"})
	}
	// rule-free combinations of two features on one message (not in Safe mode: the generators
	// refuse some of them and emit non-compiling code for others)
	if !b.o.Safe && b.o.Combos && feat != "unwrap" && r.P(1, 3) {
		no = int32(len(m.Fields) + 20)
		switch r.Intn(4) {
		case 0:
			m.Fields = append(m.Fields, &ir.Field{Name: "extra_maybe", Number: no, Kind: "string", Card: "optional", Ann: ir.Ann{Nullable: bp(true)}})
		case 1:
			m.Fields = append(m.Fields, &ir.Field{Name: "extra_big", Number: no, Kind: "int64", Ann: ir.Ann{Int64Enc: "NUMBER"}})
		case 2:
			m.Fields = append(m.Fields, &ir.Field{Name: "extra_blob", Number: no, Kind: "bytes", Ann: ir.Ann{BytesEnc: "HEX"}})
		default:
			lf := b.leaf()
			m.Fields = append(m.Fields, &ir.Field{Name: "extra_opt_flat", Number: no, Kind: "message", TypeName: b.full(lf.Name), Card: "optional",
				Ann: ir.Ann{Flatten: bp(true), FlattenPrefix: sp("eo_")}})
		}
	}
	return b.add(m)
}

// GenAnnotFile builds one rule-free file: feature messages, optional nesting and a service whose
// RPCs (POST, explicit paths) use them as requests and responses.
func GenAnnotFile(r *R, idx int, o AnnotOpts) *ir.File {
	if o.Pkg == "" {
		o.Pkg = "demo.v1"
	}
	if o.GoPkg == "" {
		o.GoPkg = "example.com/gen/" + strings.ReplaceAll(o.Pkg, ".", "/") + ";" + strings.ReplaceAll(o.Pkg, ".", "")
	}
	if o.FileName == "" {
		o.FileName = fmt.Sprintf("a%d/api.proto", idx)
	}
	b := &fileBuilder{r: r, o: o, f: &ir.File{Name: o.FileName, Package: o.Pkg, GoPackage: o.GoPkg}, pfx: "." + o.Pkg + "."}
	var feats []string
	for _, f := range allFeatures {
		if o.on(f) {
			feats = append(feats, f)
		}
	}
	n := 2 + r.Intn(4)
	var tops []*ir.Message
	for i := 0; i < n; i++ {
		tops = append(tops, b.featureMessage(Pick(r, feats)))
	}
	// a parent that embeds some feature messages as singular / repeated / map children
	if r.Bool() && len(tops) > 0 {
		p := &ir.Message{Name: b.msgName("Parent")}
		no := int32(1)
		for i, t := range tops {
			if r.Bool() {
				continue
			}
			card := Pick(r, []string{"", "repeated", "map"})
			f := &ir.Field{Name: fmt.Sprintf("c%d", i), Number: no, Kind: "message", TypeName: b.full(t.Name), Card: card}
			if card == "map" {
				f.MapKey = "string"
			}
			p.Fields = append(p.Fields, f)
			no++
		}
		if len(p.Fields) > 0 {
			b.add(p)
			tops = append(tops, p)
		}
	}
	if o.Safe {
		// *_unwrap.pb.go imports protojson unconditionally: keep it used (known finding
		// go:unwrap_unused_import) so that Safe files compile
		hasUnwrap, usesPJ := false, false
		for _, m := range b.f.Messages {
			for _, fl := range m.Fields {
				if fl.Ann.Unwrap {
					hasUnwrap = true
					if fl.Kind == "message" {
						usesPJ = true
					}
				}
			}
		}
		if hasUnwrap && !usesPJ {
			lf := b.leaf()
			b.add(&ir.Message{Name: b.msgName("KeepList"), Fields: []*ir.Field{{Name: "items", Number: 1, Kind: "message", TypeName: b.full(lf.Name), Card: "repeated", Ann: ir.Ann{Unwrap: true}}}})
		}
	}
	if !o.NoService {
		svc := &ir.Service{Name: o.MsgPrefix + "ApiService", BasePath: "/api"}
		for i, t := range tops {
			out := tops[(i+1)%len(tops)]
			svc.Methods = append(svc.Methods, &ir.Method{Name: fmt.Sprintf("Call%d", i), Input: b.full(t.Name), Output: b.full(out.Name),
				Config: &ir.HTTPConfig{Path: fmt.Sprintf("/call%d", i), Method: "POST"}})
		}
		b.f.Services = append(b.f.Services, svc)
	}
	return b.f
}
