import Sebuf.Mapping
import Sebuf.WireEnc
/-!
Theorems about the documented JSON mapping (`Sebuf.Mapping`) and the server's actual encoding
(`Sebuf.WireEnc`).
-/
namespace Sebuf
open Sebuf.Mapping

/-! ### "No sebuf JSON annotation" -/

/-- every sebuf JSON annotation of the field is at its default (`query` is not a JSON annotation). -/
def Field.noAnn (f : Field) : Bool :=
  !f.unwrap && f.int64Enc == 0 && f.enumEnc == 0 && !f.nullable && f.emptyBehavior == 0 &&
  f.tsFormat == 0 && f.bytesEnc == 0 && f.oneofValue.isNone && !f.flatten && f.flattenPrefix == []

def Message.noAnn (m : Message) : Bool :=
  m.fields.all Field.noAnn && m.oneofs.all fun o => !o.hasConfig

/-- no value of the enum carries `(sebuf.http.enum_value)`. -/
def EnumT.noCustom (e : EnumT) : Bool := e.values.all fun v => v.2.2.isNone

def Request.noAnn (rq : Request) : Bool :=
  rq.files.all fun fl => fl.messages.all Message.noAnn && fl.enums.all EnumT.noCustom

theorem Field.noAnn_iff (f : Field) : f.noAnn = true ↔
    f.unwrap = false ∧ f.int64Enc = 0 ∧ f.enumEnc = 0 ∧ f.nullable = false ∧ f.emptyBehavior = 0 ∧
    f.tsFormat = 0 ∧ f.bytesEnc = 0 ∧ f.oneofValue = none ∧ f.flatten = false ∧ f.flattenPrefix = [] := by
  simp [Field.noAnn, and_assoc]

theorem Message.noAnn_iff (m : Message) : m.noAnn = true ↔
    (∀ f ∈ m.fields, f.noAnn = true) ∧ (∀ o ∈ m.oneofs, o.hasConfig = false) := by
  simp [Message.noAnn]

theorem Request.noAnn_messages {rq : Request} (h : rq.noAnn = true) :
    ∀ m ∈ rq.allMessages, m.noAnn = true := by
  intro m hm
  simp only [Request.allMessages, List.mem_flatMap] at hm
  obtain ⟨fl, hfl, hm⟩ := hm
  simp only [Request.noAnn, List.all_eq_true, Bool.and_eq_true] at h
  exact (h fl hfl).1 m hm

theorem Request.noAnn_enums {rq : Request} (h : rq.noAnn = true) :
    ∀ e ∈ rq.allEnums, e.noCustom = true := by
  intro e he
  simp only [Request.allEnums, List.mem_flatMap] at he
  obtain ⟨fl, hfl, he⟩ := he
  simp only [Request.noAnn, List.all_eq_true, Bool.and_eq_true] at h
  exact (h fl hfl).2 e he

theorem Request.findMessage_mem {rq : Request} {t : Str} {m : Message}
    (h : rq.findMessage t = some m) : m ∈ rq.allMessages :=
  List.mem_of_find?_eq_some h

theorem Request.findEnum_mem {rq : Request} {t : Str} {e : EnumT}
    (h : rq.findEnum t = some e) : e ∈ rq.allEnums :=
  List.mem_of_find?_eq_some h

namespace Mapping

/-! ### A1: un-annotated schemas are encoded exactly as proto3 JSON -/

theorem enumJson_noAnn (rq : Request) (hE : ∀ e ∈ rq.allEnums, e.noCustom = true)
    (f : Field) (hf : f.enumEnc = 0) (n : Int) :
    enumJson rq true f n = enumJson rq false f n := by
  unfold enumJson
  simp only [hf, Bool.true_and, Bool.false_and]
  have h02 : ((0 : Nat) == 2) = false := by decide
  simp only [h02]
  cases he : rq.findEnum f.typeName with
  | none => rfl
  | some e =>
    have hc := hE e (Request.findEnum_mem he)
    simp only [EnumT.noCustom, List.all_eq_true] at hc
    dsimp only
    cases hv : e.values.find? (fun x => x.1 == n) with
    | none => rfl
    | some p =>
      obtain ⟨a, name, custom⟩ := p
      have := hc _ (List.mem_of_find?_eq_some hv)
      cases custom with
      | none => rfl
      | some c => simp at this

theorem scalarJson_noAnn (rq : Request) (hE : ∀ e ∈ rq.allEnums, e.noCustom = true)
    (f : Field) (hf : f.noAnn = true) (v : Val) :
    scalarJson rq true f v = scalarJson rq false f v := by
  have ⟨_, h64, hen, _, _, hts, hby, _, _, _⟩ := (Field.noAnn_iff f).mp hf
  cases v with
  | int i => simp [scalarJson, h64]
  | bytes b => simp [scalarJson, bytesJson, hby]
  | enum n => simp only [scalarJson]; exact enumJson_noAnn rq hE f hen n
  | ts s n r d => simp [scalarJson, tsJson, hts]
  | _ => rfl

/-- under `Message.noAnn` no oneof of the message is a configured (discriminated) one. -/
theorem oneofConfig_none (m : Message) (hm : ∀ o ∈ m.oneofs, o.hasConfig = false) (f : Field) :
    (f.oneof.bind fun o => m.oneofs.find? (fun d => d.name == o && d.hasConfig && d.discriminator != [])) = none := by
  cases f.oneof with
  | none => rfl
  | some o =>
    simp only [Option.bind_some, List.find?_eq_none]
    intro d hd
    simp [hm d hd]

/-- the simultaneous statement for the five mutually recursive encoders, any `goNil`. -/
theorem enc_eq_pj_all (rq : Request) (h : rq.noAnn = true) (g : Bool) : ∀ fuel : Nat,
    (∀ m ∈ rq.allMessages, ∀ vs, encMsg rq true g fuel m vs = encMsg rq false g fuel m vs) ∧
    (∀ m ∈ rq.allMessages, ∀ fs, (∀ f ∈ fs, f.noAnn = true) → ∀ vs,
        encFields rq true g fuel m fs vs = encFields rq false g fuel m fs vs) ∧
    (∀ f, f.noAnn = true → ∀ v, encFieldVal rq true g fuel f v = encFieldVal rq false g fuel f v) ∧
    (∀ f, f.noAnn = true → ∀ l, encList rq true g fuel f l = encList rq false g fuel f l) ∧
    (∀ f, f.noAnn = true → ∀ kvs, encMap rq true g fuel f kvs = encMap rq false g fuel f kvs) := by
  have hM := Request.noAnn_messages h
  have hE := Request.noAnn_enums h
  intro fuel
  induction fuel with
  | zero =>
    refine ⟨?_, ?_, ?_, ?_, ?_⟩
    · intros; rw [encMsg, encMsg]
    · intros; rw [encFields, encFields]
    · intros; rw [encFieldVal, encFieldVal]
    · intros; rw [encList, encList]
    · intros; rw [encMap, encMap]
  | succ fuel ih =>
    obtain ⟨ihMsg, ihFields, ihVal, ihList, ihMap⟩ := ih
    refine ⟨?_, ?_, ?_, ?_, ?_⟩
    · -- encMsg
      intro m hm vs
      have ⟨hmf, _⟩ := (Message.noAnn_iff m).mp (hM m hm)
      have hany : (m.fields.any fun x => x.unwrap) = false := by
        rw [List.any_eq_false]
        intro x hx
        have := ((Field.noAnn_iff x).mp (hmf x hx)).1
        simp [this]
      rw [encMsg, encMsg]
      simp only [hany, Bool.and_false, Bool.false_and, Bool.false_eq_true, if_false]
      rw [ihFields m hm m.fields hmf vs]
    · -- encFields
      intro m hm fs
      have ⟨_, hmo⟩ := (Message.noAnn_iff m).mp (hM m hm)
      induction fs with
      | nil => intros; rw [encFields, encFields] <;> simp
      | cons f rest ihr =>
        intro hfs vs
        have hf := hfs f (List.mem_cons_self)
        have hrest := ihr (fun x hx => hfs x (List.mem_cons_of_mem _ hx)) vs
        have ⟨_, _, _, hnul, hemp, _, _, _, hfl, _⟩ := (Field.noAnn_iff f).mp hf
        rw [encFields, encFields, hrest]
        cases hl : vs.lookup f.name with
        | none => simp [hnul]
        | some v =>
          simp only [if_true, oneofConfig_none m hmo f, Bool.false_eq_true, if_false, hfl, hemp,
            Bool.true_and, Bool.false_and, bne_self_eq_false, ihVal f hf v]
    · -- encFieldVal
      intro f hf v
      cases v with
      | list l => rw [encFieldVal, encFieldVal, ihList f hf l]
      | map kvs => rw [encFieldVal, encFieldVal, ihMap f hf kvs]
      | msg vs =>
        rw [encFieldVal, encFieldVal]
        cases hfm : rq.findMessage f.typeName with
        | none => rfl
        | some m' => exact ihMsg m' (Request.findMessage_mem hfm) vs
      | int i => rw [encFieldVal, encFieldVal] <;> first | exact scalarJson_noAnn rq hE f hf _ | (intros; contradiction)
      | bool b => rw [encFieldVal, encFieldVal] <;> first | exact scalarJson_noAnn rq hE f hf _ | (intros; contradiction)
      | str s => rw [encFieldVal, encFieldVal] <;> first | exact scalarJson_noAnn rq hE f hf _ | (intros; contradiction)
      | float t q => rw [encFieldVal, encFieldVal] <;> first | exact scalarJson_noAnn rq hE f hf _ | (intros; contradiction)
      | bytes b => rw [encFieldVal, encFieldVal] <;> first | exact scalarJson_noAnn rq hE f hf _ | (intros; contradiction)
      | enum n => rw [encFieldVal, encFieldVal] <;> first | exact scalarJson_noAnn rq hE f hf _ | (intros; contradiction)
      | ts s n r d => rw [encFieldVal, encFieldVal] <;> first | exact scalarJson_noAnn rq hE f hf _ | (intros; contradiction)
    · -- encList
      intro f hf l
      induction l with
      | nil => rw [encList, encList] <;> simp
      | cons v rest ihr => rw [encList, encList, ihr, ihVal f hf v]
    · -- encMap
      intro f hf kvs
      induction kvs with
      | nil => rw [encMap, encMap] <;> simp
      | cons p rest ihr =>
        obtain ⟨k, v⟩ := p
        by_cases hv : ∃ vs, v = Val.msg vs
        · obtain ⟨vs, rfl⟩ := hv
          rw [encMap, encMap, ihr]
          cases hfm : rq.findMessage f.typeName with
          | none => rfl
          | some m' =>
            have hm' := Request.findMessage_mem hfm
            have ⟨hmf, _⟩ := (Message.noAnn_iff m').mp (hM m' hm')
            have hnone : m'.fields.find? (fun u => u.unwrap && u.card == Card.repeated) = none := by
              rw [List.find?_eq_none]
              intro x hx
              simp [((Field.noAnn_iff x).mp (hmf x hx)).1]
            simp only [if_true, hnone, Bool.false_eq_true, if_false, ihMsg m' hm' vs]
        · have hv' : ∀ vs, v = Val.msg vs → False := fun vs e => hv ⟨vs, e⟩
          rw [encMap.eq_4 _ _ _ _ _ _ _ _ hv', encMap.eq_4 _ _ _ _ _ _ _ _ hv', ihr, ihVal f hf v]

/-- **A1.** A request without any sebuf JSON annotation is encoded exactly as proto3 JSON. -/
theorem enc_eq_pj_of_noAnn (rq : Request) (h : rq.noAnn = true) (fuel : Nat) (m : Message)
    (hm : m ∈ rq.allMessages) (vs : List (Str × Val)) :
    Mapping.enc rq fuel m vs = Mapping.pj rq fuel m vs :=
  (enc_eq_pj_all rq h false fuel).1 m hm vs

/-! ### unfolding lemmas for closed witnesses (the encoders are defined by well-founded recursion and do not reduce by `rfl`/`decide`) -/

theorem encMsg_obj (rq : Request) (ann g : Bool) (fuel : Nat) (m : Message) (vs : List (Str × Val))
    (h : (m.fields.any fun x => x.unwrap) = false) :
    encMsg rq ann g (fuel + 1) m vs = Json.obj (encFields rq ann g fuel m m.fields vs) := by
  rw [encMsg]; simp [h]

theorem encFields_nil (rq : Request) (ann g : Bool) (fuel : Nat) (m : Message) (vs : List (Str × Val)) :
    encFields rq ann g fuel m [] vs = [] := by
  cases fuel <;> rw [encFields]; simp

theorem encFields_cons_plain (rq : Request) (ann g : Bool) (fuel : Nat) (m : Message) (f : Field)
    (rest : List Field) (vs : List (Str × Val)) (v : Val)
    (hl : vs.lookup f.name = some v) (ho : f.oneof = none) (hf : f.flatten = false) (he : f.emptyBehavior = 0) :
    encFields rq ann g (fuel + 1) m (f :: rest) vs =
      (f.json, encFieldVal rq ann g fuel f v) :: encFields rq ann g (fuel + 1) m rest vs := by
  rw [encFields, hl]
  simp [ho, hf, he]

theorem encFieldVal_msg (rq : Request) (ann g : Bool) (fuel : Nat) (f : Field) (vs : List (Str × Val))
    (m : Message) (h : rq.findMessage f.typeName = some m) :
    encFieldVal rq ann g (fuel + 1) f (Val.msg vs) = encMsg rq ann g fuel m vs := by
  rw [encFieldVal, h]

theorem encFieldVal_int (rq : Request) (ann g : Bool) (fuel : Nat) (f : Field) (i : Int) :
    encFieldVal rq ann g (fuel + 1) f (Val.int i) = scalarJson rq ann f (Val.int i) := by
  rw [encFieldVal] <;> (intros; contradiction)

theorem encFieldVal_enum (rq : Request) (ann g : Bool) (fuel : Nat) (f : Field) (n : Int) :
    encFieldVal rq ann g (fuel + 1) f (Val.enum n) = scalarJson rq ann f (Val.enum n) := by
  rw [encFieldVal] <;> (intros; contradiction)

end Mapping
namespace WireEnc
open Mapping

/-! ### A2: only the top-level message is annotated ⇒ the server sends the documented JSON -/

/-- every message other than `m` is free of JSON annotations, no enum has custom values, `m` has
no `enum_encoding` field, message full names are unique and `m` is a message of the request. -/
def AnnotatedOnlyAtTop (rq : Request) (m : Message) : Prop :=
  (∀ x ∈ rq.allMessages, x.fullName ≠ m.fullName → x.noAnn = true) ∧
  (∀ e ∈ rq.allEnums, e.noCustom = true) ∧
  (∀ f ∈ m.fields, f.enumEnc = 0) ∧
  (rq.allMessages.map (·.fullName)).Nodup ∧
  m ∈ rq.allMessages

theorem map_eq_self {α : Type _} (g : α → α) (l : List α) (h : ∀ a ∈ l, g a = a) : l.map g = l := by
  induction l with
  | nil => rfl
  | cons a t ih =>
    rw [List.map_cons, h a List.mem_cons_self, ih fun b hb => h b (List.mem_cons_of_mem _ hb)]

theorem eq_of_nodup_map {α β : Type _} (g : α → β) : ∀ (l : List α), (l.map g).Nodup →
    ∀ a ∈ l, ∀ b ∈ l, g a = g b → a = b := by
  intro l
  induction l with
  | nil => intro _ a ha; cases ha
  | cons x t ih =>
    intro hnd a ha b hb hab
    rw [List.map_cons, List.nodup_cons] at hnd
    rcases List.mem_cons.mp ha with rfl | ha' <;> rcases List.mem_cons.mp hb with rfl | hb'
    · rfl
    · exact absurd (List.mem_map.mpr ⟨b, hb', hab.symm⟩) hnd.1
    · exact absurd (List.mem_map.mpr ⟨a, ha', hab⟩) hnd.1
    · exact ih hnd.2 a ha' b hb' hab

theorem clearField_of_noAnn (b : Bool) (f : Field) (h : f.noAnn = true) : clearField b f = f := by
  have ⟨h1, h2, h3, h4, h5, h6, h7, h8, h9, h10⟩ := (Field.noAnn_iff f).mp h
  cases f
  simp_all [clearField]

theorem clearMessage_of_noAnn (b : Bool) (x : Message) (h : x.noAnn = true) : clearMessage b x = x := by
  have ⟨hf, ho⟩ := (Message.noAnn_iff x).mp h
  have e1 : x.fields.map (clearField b) = x.fields :=
    map_eq_self _ _ fun f hfm => clearField_of_noAnn b f (hf f hfm)
  have e2 : (x.oneofs.map fun o => { o with hasConfig := false }) = x.oneofs :=
    map_eq_self _ _ fun o hom => by
      have := ho o hom
      cases o; simp_all
  cases x
  simp_all [clearMessage]

theorem topMessage_of_noEnumEnc (m : Message) (h : ∀ f ∈ m.fields, f.enumEnc = 0) : topMessage m = m := by
  have e1 : (m.fields.map fun f => { f with enumEnc := 0 }) = m.fields :=
    map_eq_self _ _ fun f hfm => by
      have := h f hfm
      cases f; simp_all
  cases m
  simp_all [topMessage]

theorem clearEnum_of_noCustom (e : EnumT) (h : e.noCustom = true) :
    ({ e with values := e.values.map fun v => (v.1, v.2.1, none) } : EnumT) = e := by
  simp only [EnumT.noCustom, List.all_eq_true] at h
  have e1 : (e.values.map fun v => ((v.1, v.2.1, none) : Int × Str × Option Str)) = e.values :=
    map_eq_self _ _ fun v hv => by
      have := h v hv
      obtain ⟨a, n, c⟩ := v
      cases c with
      | none => rfl
      | some c => simp at this
  cases e
  simp_all

theorem findMessage_of_unique (rq : Request) (m : Message)
    (hnd : (rq.allMessages.map (·.fullName)).Nodup) (hm : m ∈ rq.allMessages) :
    rq.findMessage m.fullName = some m := by
  unfold Request.findMessage
  cases hf : rq.allMessages.find? (fun x => x.fullName == m.fullName) with
  | none =>
    rw [List.find?_eq_none] at hf
    exact absurd (by simp) (hf m hm)
  | some x =>
    have hx := List.mem_of_find?_eq_some hf
    have hp := List.find?_some hf
    simp only [beq_iff_eq] at hp
    rw [eq_of_nodup_map (·.fullName) _ hnd x hx m hm hp]

/-- **A2.** When only the top-level message carries annotations, erasing the annotations the
server ignores changes nothing. -/
theorem implRq_eq_of_top_only (rq : Request) (m : Message) (h : AnnotatedOnlyAtTop rq m) :
    implRq rq m = rq := by
  obtain ⟨hother, hen, htop, hnd, hm⟩ := h
  have hfiles : (rq.files.map fun f =>
      { f with
        messages := f.messages.map fun x =>
          if x.fullName == m.fullName then topMessage x
          else clearMessage ((mapValueTypes m).contains x.fullName) x
        enums := f.enums.map fun e => { e with values := e.values.map fun v => (v.1, v.2.1, none) } }) = rq.files := by
    apply map_eq_self
    intro fl hfl
    have e1 : (fl.messages.map fun x =>
          if x.fullName == m.fullName then topMessage x
          else clearMessage ((mapValueTypes m).contains x.fullName) x) = fl.messages := by
      apply map_eq_self
      intro x hx
      have hxa : x ∈ rq.allMessages := List.mem_flatMap.mpr ⟨fl, hfl, hx⟩
      by_cases hn : x.fullName = m.fullName
      · have : x = m := eq_of_nodup_map (·.fullName) _ hnd x hxa m hm hn
        subst this
        simp [topMessage_of_noEnumEnc x htop]
      · have hb : (x.fullName == m.fullName) = false := by simpa using hn
        simp only [hb, Bool.false_eq_true, if_false]
        exact clearMessage_of_noAnn _ x (hother x hxa hn)
    have e2 : (fl.enums.map fun e => ({ e with values := e.values.map fun v => (v.1, v.2.1, none) } : EnumT)) = fl.enums := by
      apply map_eq_self
      intro e he
      exact clearEnum_of_noCustom e (hen e (List.mem_flatMap.mpr ⟨fl, hfl, he⟩))
    rw [e1, e2]
  unfold implRq
  rw [hfiles]

/-- **A2, corollary.** The server's JSON is then the documented mapping evaluated with Go's
nil-as-null quirk (`goNil = true`) on the unchanged request. -/
theorem wireEnc_eq_spec_top_only (rq : Request) (m : Message) (h : AnnotatedOnlyAtTop rq m)
    (fuel : Nat) (vs : List (Str × Val)) :
    wireEnc rq fuel m vs = encMsg rq true true fuel m vs := by
  unfold wireEnc
  simp only [implRq_eq_of_top_only rq m h, findMessage_of_unique rq m h.2.2.2.1 h.2.2.2.2, Option.getD_some]

/-! ### A3: witnesses — what the server sends differs from the documented mapping -/
namespace Witness

/-! #### a nested message with `int64_encoding = NUMBER` -/

def bigField : Field := { name := "big".toList, kind := .int64, int64Enc := 2 }
def cField : Field := { name := "c".toList, kind := .message, typeName := ".t.Child".toList }
/-- `message Child { int64 big = 1 [(sebuf.http.int64_encoding) = NUMBER]; }` -/
def childMsg : Message := { fullName := ".t.Child".toList, name := "Child".toList, fields := [bigField] }
/-- `message Parent { Child c = 1; }` -/
def parentMsg : Message := { fullName := ".t.Parent".toList, name := "Parent".toList, fields := [cField] }
def rqNested : Request := { files := [{ name := "t.proto".toList, messages := [parentMsg, childMsg] }] }
/-- the value `{ c: { big: 5 } }`. -/
def vNested : List (Str × Val) := [("c".toList, Val.msg [("big".toList, Val.int 5)])]

def bigFieldCleared : Field := { name := "big".toList, kind := .int64 }
def childCleared : Message := { fullName := ".t.Child".toList, name := "Child".toList, fields := [bigFieldCleared] }
def rqNestedImpl : Request := { files := [{ name := "t.proto".toList, messages := [parentMsg, childCleared] }] }

theorem implRq_nested : implRq rqNested parentMsg = rqNestedImpl := rfl

/-- the documented mapping: `{"c":{"big":5}}` (a JSON number). -/
theorem nested_enc (n : Nat) : enc rqNested (n + 6) parentMsg vNested =
    Json.obj [("c".toList, Json.obj [("big".toList, Json.num (JNum.int 5))])] := by
  unfold enc
  rw [encMsg_obj _ _ _ _ _ _ rfl]
  show Json.obj (encFields _ _ _ _ _ [cField] vNested) = _
  rw [encFields_cons_plain _ _ _ _ _ _ _ _ (Val.msg [("big".toList, Val.int 5)]) rfl rfl rfl rfl, encFields_nil,
    encFieldVal_msg _ _ _ _ _ _ childMsg rfl, encMsg_obj _ _ _ _ _ _ rfl]
  show Json.obj [(_, Json.obj (encFields _ _ _ _ _ [bigField] _))] = _
  rw [encFields_cons_plain _ _ _ _ _ _ _ _ (Val.int 5) rfl rfl rfl rfl, encFields_nil, encFieldVal_int]
  rfl

/-- what the server sends: `{"c":{"big":"5"}}` (a string — the child is encoded by plain protojson). -/
theorem nested_wire (n : Nat) : wireEnc rqNested (n + 6) parentMsg vNested =
    Json.obj [("c".toList, Json.obj [("big".toList, Json.str "5".toList)])] := by
  unfold wireEnc
  rw [implRq_nested]
  show encMsg rqNestedImpl true true (n + 6) parentMsg vNested = _
  rw [encMsg_obj _ _ _ _ _ _ rfl]
  show Json.obj (encFields _ _ _ _ _ [cField] vNested) = _
  rw [encFields_cons_plain _ _ _ _ _ _ _ _ (Val.msg [("big".toList, Val.int 5)]) rfl rfl rfl rfl, encFields_nil,
    encFieldVal_msg _ _ _ _ _ _ childCleared rfl, encMsg_obj _ _ _ _ _ _ rfl]
  show Json.obj [(_, Json.obj (encFields _ _ _ _ _ [bigFieldCleared] _))] = _
  rw [encFields_cons_plain _ _ _ _ _ _ _ _ (Val.int 5) rfl rfl rfl rfl, encFields_nil, encFieldVal_int]
  rfl

/-- **A3.** `int64_encoding = NUMBER` on a nested message's field is ignored by the server. -/
theorem nested_int64_number_ignored (n : Nat) :
    wireEnc rqNested (n + 6) parentMsg vNested ≠ enc rqNested (n + 6) parentMsg vNested := by
  rw [nested_wire, nested_enc]
  intro e
  injection e with e
  injection e with e _
  injection e with _ e
  injection e with e
  cases e

/-! #### an enum with a custom JSON value, at top level -/

def colorField : Field := { name := "color".toList, kind := .enum, typeName := ".t.Color".toList }
/-- `message Paint { Color color = 1; }` -/
def paintMsg : Message := { fullName := ".t.Paint".toList, name := "Paint".toList, fields := [colorField] }
/-- `enum Color { COLOR_UNSPECIFIED = 0; COLOR_RED = 1 [(sebuf.http.enum_value) = "red"]; }` -/
def colorEnum : EnumT :=
  { fullName := ".t.Color".toList, hasCustom := true,
    values := [(0, "COLOR_UNSPECIFIED".toList, none), (1, "COLOR_RED".toList, some "red".toList)] }
def rqEnum : Request := { files := [{ name := "t.proto".toList, messages := [paintMsg], enums := [colorEnum] }] }
/-- the value `{ color: COLOR_RED }`. -/
def vEnum : List (Str × Val) := [("color".toList, Val.enum 1)]

def colorEnumCleared : EnumT :=
  { fullName := ".t.Color".toList, hasCustom := true,
    values := [(0, "COLOR_UNSPECIFIED".toList, none), (1, "COLOR_RED".toList, none)] }
def rqEnumImpl : Request := { files := [{ name := "t.proto".toList, messages := [paintMsg], enums := [colorEnumCleared] }] }

theorem implRq_enum : implRq rqEnum paintMsg = rqEnumImpl := rfl

/-- the documented mapping: `{"color":"red"}`. -/
theorem enum_enc (n : Nat) : enc rqEnum (n + 3) paintMsg vEnum =
    Json.obj [("color".toList, Json.str "red".toList)] := by
  unfold enc
  rw [encMsg_obj _ _ _ _ _ _ rfl]
  show Json.obj (encFields _ _ _ _ _ [colorField] vEnum) = _
  rw [encFields_cons_plain _ _ _ _ _ _ _ _ (Val.enum 1) rfl rfl rfl rfl, encFields_nil, encFieldVal_enum]
  rfl

/-- what the server sends: `{"color":"COLOR_RED"}`. -/
theorem enum_wire (n : Nat) : wireEnc rqEnum (n + 3) paintMsg vEnum =
    Json.obj [("color".toList, Json.str "COLOR_RED".toList)] := by
  unfold wireEnc
  rw [implRq_enum]
  show encMsg rqEnumImpl true true (n + 3) paintMsg vEnum = _
  rw [encMsg_obj _ _ _ _ _ _ rfl]
  show Json.obj (encFields _ _ _ _ _ [colorField] vEnum) = _
  rw [encFields_cons_plain _ _ _ _ _ _ _ _ (Val.enum 1) rfl rfl rfl rfl, encFields_nil, encFieldVal_enum]
  rfl

/-- **A3.** A custom `enum_value` string is never on the wire, even for a top-level field. -/
theorem enum_custom_value_never_on_wire (n : Nat) :
    wireEnc rqEnum (n + 3) paintMsg vEnum ≠ enc rqEnum (n + 3) paintMsg vEnum := by
  rw [enum_wire, enum_enc]
  intro e
  injection e with e
  injection e with e _
  injection e with _ e
  injection e with e
  cases e

/-- both witnesses fall outside `AnnotatedOnlyAtTop`, as they must (A2). -/
theorem nested_not_top_only : ¬ AnnotatedOnlyAtTop rqNested parentMsg := fun h => by
  have hm : childMsg ∈ rqNested.allMessages := by
    show childMsg ∈ [parentMsg, childMsg]
    exact List.mem_cons_of_mem _ List.mem_cons_self
  exact absurd (h.1 childMsg hm (by decide)) (by decide)

theorem enum_not_top_only : ¬ AnnotatedOnlyAtTop rqEnum paintMsg := fun h => by
  have he : colorEnum ∈ rqEnum.allEnums := by
    show colorEnum ∈ [colorEnum]
    exact List.mem_cons_self
  exact absurd (h.2.1 colorEnum he) (by decide)

/-! #### the hypothesis of A2 is satisfiable: the same annotated message at top level -/

def rqTop : Request := { files := [{ name := "t.proto".toList, messages := [childMsg] }] }

theorem top_only_child : AnnotatedOnlyAtTop rqTop childMsg := by
  refine ⟨?_, ?_, ?_, ?_, ?_⟩
  · intro x hx hne
    have : x = childMsg := by
      have : x ∈ [childMsg] := hx
      simpa using this
    exact absurd (this ▸ rfl) hne
  · intro e he
    have : e ∈ ([] : List EnumT) := he
    cases this
  · intro f hf
    have : f ∈ [bigField] := hf
    have : f = bigField := by simpa using this
    subst this; rfl
  · show ([childMsg].map (·.fullName)).Nodup
    simp
  · show childMsg ∈ [childMsg]
    exact List.mem_cons_self

/-- at top level the NUMBER encoding does reach the wire: `{"big":5}`. -/
theorem top_wire (n : Nat) : wireEnc rqTop (n + 3) childMsg [("big".toList, Val.int 5)] =
    Json.obj [("big".toList, Json.num (JNum.int 5))] := by
  rw [wireEnc_eq_spec_top_only _ _ top_only_child, encMsg_obj _ _ _ _ _ _ rfl]
  show Json.obj (encFields _ _ _ _ _ [bigField] _) = _
  rw [encFields_cons_plain _ _ _ _ _ _ _ _ (Val.int 5) rfl rfl rfl rfl, encFields_nil, encFieldVal_int]
  rfl

end Witness

end WireEnc
end Sebuf
