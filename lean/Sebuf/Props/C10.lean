import Sebuf.Errors
/-!
# C10 — errors surface with the documented status, body, format and client-side type

Finite case analysis over error source × hook behaviour of the control flow the emitted
`writeErrorWithHandler` has (`Impl`, with the status constants regenerated from the emitted
text) against the documented outcome (`Spec`). Content-type encoding is `Props/C01.codecs_agree`
plus `error_codec_tables` below.
-/
namespace Sebuf.C10
open Sebuf.Errors

/-- does the hook call `WriteHeader` without writing a body itself? -/
def hookSetsStatus : Hook → Bool
  | .setsStatus | .setsStatusAndMessage | .setsHeaderAndStatus => true
  | _ => false

/-- **the whole table (status, body, hook header)**: for every error source and every hook
behaviour the emitted control flow produces the documented status class, body and hook header. -/
theorem table : ∀ src ∈ Src.all, ∀ h ∈ Hook.all,
    (implResponse src h).status = (specResponse src h).status ∧ (implResponse src h).body = (specResponse src h).body ∧
    (implResponse src h).hookHeader = (specResponse src h).hookHeader := by decide

theorem all_sources (s : Src) : s ∈ Src.all := by cases s <;> decide
theorem all_hooks (h : Hook) : h ∈ Hook.all := by cases h <;> decide

/-- **full agreement, partial**: unless the hook sets the status itself, the whole response
(including the Content-Type header) is the documented one. -/
theorem table_partial (src : Src) (h : Hook) (hh : hookSetsStatus h = false) : implResponse src h = specResponse src h := by
  cases src <;> cases h <;> first | rfl | (exfalso; revert hh; decide)

/-- **¬ full agreement** (known finding C10 `content_type_header_lost_after_hook_writeheader`): when
the hook calls `WriteHeader`, the generated code sets `Content-Type` after the header block has
been sent, so the body is in the request's codec but the header does not say so. -/
theorem ct_header_lost (src : Src) (h : Hook) (hh : hookSetsStatus h = true) :
    (implResponse src h).ctHeader = false ∧ (specResponse src h).ctHeader = true := by
  cases src <;> cases h <;> first | (constructor <;> rfl) | (exfalso; revert hh; decide)

/-- **status constants** of the emitted `defaultErrorStatusCode`. -/
theorem status_constants : Gen.Pipeline.errorStatus = ["http.StatusBadRequest", "http.StatusInternalServerError"] := by decide

/-- validation failures are 400, everything else 500 (no hook). -/
theorem default_status (src : Src) : (implResponse src .none).status = if isValidation (errAfterGenericHandler src) then .s400 else .s500 := by
  cases src <;> decide

/-- **error bodies use the request's codec**: the two error writers of the emitted code dispatch on
the content type exactly like the success path. -/
theorem error_codec_tables :
    Gen.Pipeline.writeProtoMessageResponseTable = Gen.Pipeline.marshalResponseTable ∧
    Gen.Pipeline.writeResponseBodyTable = Gen.Pipeline.marshalResponseTable ∧
    Gen.Pipeline.writeProtoMessageResponseDefault = Gen.Pipeline.marshalResponseDefault ∧
    Gen.Pipeline.writeResponseBodyDefault = Gen.Pipeline.marshalResponseDefault := by decide

/-- **a protobuf error message keeps all its fields** (it is passed through, not flattened to a string),
but only when returned directly: a wrapped one is reported by its text. -/
theorem custom_message_passthrough :
    (implResponse .customMessage .none).body = .customMessage ∧ (implResponse .wrappedCustomMessage .none).body = .errorMessage := by decide

/-- **client mapping**: a 400 with violations becomes a validation error; a body carrying a
message becomes an Error; anything else an error with status and body. -/
theorem client_mapping_json (status400 : Bool) (b : Body) : goClientErr false status400 b = specClientErr status400 b := by
  cases status400 <;> cases b <;> rfl

/-- **¬ for binary transport** (known finding C10 `client_binary_error_body_misread`): protobuf
decoding accepts any message as `Error` / `ValidationError`, so a custom error message reaches
the caller as an `Error` whose text is the message's first field. -/
theorem client_mapping_binary_custom : goClientErr true false .customMessage = .error ∧ specClientErr false .customMessage = .other := by decide

/-- the client's status tests, regenerated from the emitted client. -/
theorem client_status_tests :
    Gen.Pipeline.clientErrorThreshold = ">= 400" ∧ Gen.Pipeline.clientValidationStatusTest = "== http.StatusBadRequest" := by decide

/-- **tie**: the emitted Go client reads the WHOLE response body, once, before it looks at the status — so what
`handleErrorResponse` classifies (`goClientErr`) is the body the server sent, whatever its size (regenerated from the
emitted client; seed C10-r8-1 read failed responses through a 4 KiB `io.LimitReader`, after which a long
`ValidationError` no longer decodes and reaches the caller as a plain error). -/
theorem client_reads_whole_body : Gen.Pipeline.clientBodyReads = ["io.ReadAll(resp.Body)"] := by decide

/-- **TS client mapping**: for EVERY status and body, the emitted TS client raises a ValidationError
exactly for a 400 that carries violations, and otherwise an ApiError with the response's own status
(a validation failure whose status a hook changed to 422 stays an ApiError 422). -/
theorem ts_client_mapping (status : Nat) (hasViolations : Bool) :
    tsClientErr status hasViolations = specTsClientErr status hasViolations := by
  unfold tsClientErr specTsClientErr
  have h1 : (Gen.PropNames.tsClientValidationStatusTest == "resp.status === 400") = true := by decide
  have h2 : (Gen.PropNames.tsClientValidationBodyTest == "parsed.violations") = true := by decide
  simp only [h1, h2, if_true]
  by_cases hs : status = 400 <;> cases hasViolations <;> simp [hs]

/-- the TS client's tests and what its errors carry, regenerated from the emitted client. -/
theorem ts_client_status_tests :
    Gen.PropNames.tsClientErrorTest = "!resp.ok" ∧ Gen.PropNames.tsClientValidationStatusTest = "resp.status === 400" ∧
    Gen.PropNames.tsClientValidationBodyTest = "parsed.violations" ∧ Gen.PropNames.tsClientValidationCarries = "parsed.violations" ∧
    Gen.PropNames.tsClientApiErrorArgs = "resp.status, `Request failed with status ${resp.status}`, body" := by decide

example : tsClientErr 422 true = .api 422 ∧ tsClientErr 400 true = .validation ∧ tsClientErr 400 false = .api 400 := by decide

/-- **TS server error mapping**: for every error source and every hook configuration the emitted
route's catch block (in the regenerated order of its branches) answers as the property asks: a
validation failure is a 400 listing its violations BEFORE any hook is consulted. -/
theorem ts_server_mapping (src : TsSrvSource) (hookAnswers : Bool) :
    tsServerAnswer src hookAnswers = specTsServerAnswer src hookAnswers := by
  cases src <;> cases hookAnswers <;> decide

/-- a configured hook never sees a validation failure. -/
theorem ts_server_hook_never_hides_violations (src : TsSrvSource) (h : src.isValidation = true) (hookAnswers : Bool) :
    tsServerAnswer src hookAnswers = .violations400 := by
  rw [ts_server_mapping]; simp [specTsServerAnswer, h]

/-- what the two non-default branches of the catch block do, regenerated from the emitted server. -/
theorem ts_server_catch_branches :
    Gen.PropNames.tsServerCatchOrder = ["validation", "hook", "default"] ∧
    Gen.PropNames.tsServerHookBranch = "return options.onError(err, req);" ∧
    Gen.PropNames.tsServerValidationBranch =
      "return new Response(JSON.stringify({ violations: err.violations }), { status: 400, headers: { \"Content-Type\": \"application/json\" }, });" :=
  ⟨rfl, rfl, rfl⟩

/-- were the hook consulted first, a catch-all hook would swallow every violation (the order matters). -/
example : tsServerAnswerIn ["hook", "validation", "default"] .headerViolation true = .hookResponse := by decide
example : tsServerAnswer .handlerError true = .hookResponse ∧ tsServerAnswer .handlerError false = .message500 ∧
    tsServerAnswer .requestViolation true = .violations400 := by decide

end Sebuf.C10
