package props

import (
	"encoding/json"
	"fmt"
	"math/big"
	"regexp"
	"sort"
	"strings"
	"sync"

	"google.golang.org/protobuf/proto"
	"google.golang.org/protobuf/reflect/protoreflect"
	"google.golang.org/protobuf/types/dynamicpb"

	"verif/harness/drv"
	"verif/harness/gen"
	"verif/harness/ir"
	"verif/harness/scratch"
)

func init() {
	Registry["C05"] = func(c *Ctx) error { return codecCheck(c, "C05") }
	Registry["C04"] = func(c *Ctx) error { return codecCheck(c, "C04") }
}

// normJSON makes real JSON (json.Number) and model JSON ({"$int"|"$float": text}) comparable:
// numbers become exact rationals in text form, object keys are sorted by encoding/json.
func normJSON(v any) any {
	switch x := v.(type) {
	case json.Number:
		if r, ok := new(big.Rat).SetString(x.String()); ok {
			return map[string]any{"#": r.RatString()}
		}
		return map[string]any{"#": x.String()}
	case map[string]any:
		if len(x) == 1 {
			for _, k := range []string{"$int", "$float"} {
				if t, ok := x[k].(string); ok {
					if r, ok := new(big.Rat).SetString(t); ok {
						return map[string]any{"#": r.RatString()}
					}
					return map[string]any{"#": t}
				}
			}
		}
		out := map[string]any{}
		for k, e := range x {
			out[k] = normJSON(e)
		}
		return out
	case []any:
		out := make([]any, len(x))
		for i, e := range x {
			out[i] = normJSON(e)
		}
		return out
	}
	return v
}

// firstDiff returns the path of the first difference between two normalised JSON trees.
func firstDiff(a, b any, path string) string {
	am, aok := a.(map[string]any)
	bm, bok := b.(map[string]any)
	if aok && bok {
		keys := map[string]bool{}
		for k := range am {
			keys[k] = true
		}
		for k := range bm {
			keys[k] = true
		}
		var ks []string
		for k := range keys {
			ks = append(ks, k)
		}
		sort.Strings(ks)
		for _, k := range ks {
			av, ain := am[k]
			bv, bin := bm[k]
			if ain != bin {
				return path + "/" + k
			}
			if d := firstDiff(av, bv, path+"/"+k); d != "" {
				return d
			}
		}
		return ""
	}
	al, aok := a.([]any)
	bl, bok := b.([]any)
	if aok && bok {
		if len(al) != len(bl) {
			return path + "/#len"
		}
		for i := range al {
			if d := firstDiff(al[i], bl[i], fmt.Sprintf("%s/%d", path, i)); d != "" {
				return d
			}
		}
		return ""
	}
	if !jsonEq(a, b) {
		if path == "" {
			return "/"
		}
		return path
	}
	return ""
}

var featNames = []string{"Int64", "Enumval", "Enumnum", "Nullable", "Empty", "Ts", "Bytes", "Flatten", "Oneof", "Unwrap", "Plain", "Parent", "Leaf",
	"TextVariant", "ImageVariant", "BarList", "KeepList"}

var _ = regexp.MustCompile

// featureOf names the codec feature a generated message exercises (GenAnnotFile names messages
// after their feature).
func featureOf(msgName string) string {
	n := strings.TrimPrefix(msgName, "T")
	for _, f := range featNames {
		if strings.HasPrefix(msgName, f) || strings.HasPrefix(n, f) {
			return strings.ToLower(f)
		}
	}
	return strings.ToLower(msgName)
}

// lossyAll applies every documented loss everywhere in the message: sub-second truncation for
// UNIX_SECONDS, sub-millisecond for UNIX_MILLIS, time of day for DATE, presence of an empty
// message under OMIT.
func lossyAll(req *ir.Request, full string, m protoreflect.Message) {
	im, _ := req.FindMessage(full)
	if im == nil {
		return
	}
	for _, f := range im.Fields {
		fd := m.Descriptor().Fields().ByName(protoreflect.Name(f.Name))
		if fd == nil || !m.Has(fd) {
			continue
		}
		fixTS := func(ts protoreflect.Message) {
			sfd := ts.Descriptor().Fields().ByName("seconds")
			nfd := ts.Descriptor().Fields().ByName("nanos")
			secs, nanos := ts.Get(sfd).Int(), ts.Get(nfd).Int()
			switch f.Ann.TsFormat {
			case "UNIX_SECONDS":
				nanos = 0
			case "UNIX_MILLIS":
				nanos = nanos / 1000000 * 1000000
			case "DATE":
				nanos = 0
				secs = secs - ((secs%86400)+86400)%86400
			}
			ts.Set(sfd, protoreflect.ValueOfInt64(secs))
			ts.Set(nfd, protoreflect.ValueOfInt32(int32(nanos)))
		}
		switch {
		case fd.IsMap():
			if fd.MapValue().Kind() == protoreflect.MessageKind {
				m.Get(fd).Map().Range(func(_ protoreflect.MapKey, v protoreflect.Value) bool {
					lossyAll(req, f.TypeName, v.Message())
					return true
				})
			}
		case fd.IsList():
			if fd.Kind() == protoreflect.MessageKind {
				l := m.Get(fd).List()
				for i := 0; i < l.Len(); i++ {
					if f.TypeName == ".google.protobuf.Timestamp" {
						fixTS(l.Get(i).Message())
					} else {
						lossyAll(req, f.TypeName, l.Get(i).Message())
					}
				}
			}
		case fd.Kind() == protoreflect.MessageKind:
			child := m.Mutable(fd).Message()
			if f.TypeName == ".google.protobuf.Timestamp" {
				fixTS(child)
				continue
			}
			lossyAll(req, f.TypeName, child)
			if f.Ann.EmptyBehavior == "OMIT" {
				empty := true
				child.Range(func(protoreflect.FieldDescriptor, protoreflect.Value) bool { empty = false; return false })
				if empty {
					m.Clear(fd)
				}
			}
		}
	}
}

func lossyEqual(req *ir.Request, full string, a, b proto.Message) bool {
	x := proto.Clone(a)
	y := proto.Clone(b)
	lossyAll(req, full, x.ProtoReflect())
	lossyAll(req, full, y.ProtoReflect())
	return proto.Equal(x, y)
}

// codecLossyEqual is lossyEqual plus the one loss the flatten mapping has by construction: a
// flattened child without populated fields contributes no member, so "empty child" and "no child"
// have the same documented JSON.
func codecLossyEqual(req *ir.Request, full string, a, b proto.Message) bool {
	x := proto.Clone(a)
	y := proto.Clone(b)
	for _, m := range []proto.Message{x, y} {
		lossyAll(req, full, m.ProtoReflect())
		dropEmptyFlattenChildren(req, full, m.ProtoReflect())
	}
	return proto.Equal(x, y)
}

func dropEmptyFlattenChildren(req *ir.Request, full string, m protoreflect.Message) {
	im, _ := req.FindMessage(full)
	if im == nil {
		return
	}
	for _, f := range im.Fields {
		if f.Ann.Flatten == nil || !*f.Ann.Flatten || f.Kind != "message" || f.Card == "repeated" || f.Card == "map" {
			continue
		}
		fd := m.Descriptor().Fields().ByName(protoreflect.Name(f.Name))
		if fd == nil || !m.Has(fd) {
			continue
		}
		empty := true
		m.Get(fd).Message().Range(func(protoreflect.FieldDescriptor, protoreflect.Value) bool { empty = false; return false })
		if empty {
			m.Clear(fd)
		}
	}
}

// codecCase is one (type, value) of the codec checks with everything observed about it.
type codecCase struct {
	x     *rtItem
	full  string
	name  string
	val   *dynamicpb.Message
	encOp map[string]any
	dop   map[string]any
}

// codecCheck drives both C04 (round trip) and C05 (documented mapping at every depth).
func codecCheck(c *Ctx, prop string) error {
	res := c.Res
	res.Rule = "annotated message types (every codec feature on the shapes the emitted Go compiles for, each also embedded as singular child / list element / map value of a parent; plus codec files built around the flatten, discriminated-oneof and map-value-unwrap templates with rich, empty, multi-word and self-marshalling children) x boundary-biased and directed values: the real MarshalJSON / UnmarshalJSON (or protojson, as the server chooses) run on the compiled generated package; " +
		"a case is one (type, value); non-trivial = the value has a populated field; distinct by (schema, type, value digest)"
	res.Assumptions = append(res.Assumptions, "float text and RFC 3339 / date renderings of Timestamps are taken from the real library as leaves of the Lean mapping model", "values above 2^53 under int64_encoding=NUMBER are compared exactly (Go side); the JavaScript precision limit is documented")
	r := gen.New(c.Seed)
	n := c.N(10, 80)
	nCodec := c.N(3, 12)
	per := c.N(12, 60)
	// which Go plugin's output a package holds: C05 is about the SERVER's JSON (go-http alone — with
	// both plugins in one package the client's identical-looking codec file would stand in for a
	// missing server one); C04 covers both generators, one at a time (go-client alone only for
	// schemas without unwrap, which only go-http emits codecs for: C14 `not_client_alone`)
	reqCache := map[int]*ir.Request{}
	var reqMu sync.Mutex
	addFor := func(i int) scratch.AddOpts {
		if prop == "C05" || i%2 == 0 {
			return scratch.AddOpts{GoHTTP: true}
		}
		reqMu.Lock()
		rq := reqCache[i]
		reqMu.Unlock()
		if rq != nil && strings.Contains(rq.JSON(), `"unwrap":true`) {
			return scratch.AddOpts{GoHTTP: true}
		}
		return scratch.AddOpts{GoClient: true}
	}
	bt, items, err := buildBatchOpts(n+nCodec+2, func(i int) (out *ir.Request) {
		defer func() {
			reqMu.Lock()
			reqCache[i] = out
			reqMu.Unlock()
		}()
		var f *ir.File
		switch {
		case i < n:
			f = gen.GenAnnotFile(r.Fork(fmt.Sprint(prop, "-", i)), i, gen.AnnotOpts{Safe: true})
		case i < n+nCodec:
			f = gen.GenCodecFile(r.Fork(fmt.Sprint(prop, "-codec-", i)), i)
		default:
			// every codec feature on a message declared INSIDE a parent that carries no annotation of
			// its own: each nested type is exercised as a type of its own (an RPC may use it directly)
			return gen.GenNestedAnnot(i, true)
		}
		return &ir.Request{Files: []*ir.File{f}, Generate: []string{f.Name}}
	}, addFor, false)
	if err != nil {
		return err
	}
	defer bt.Close()
	var all []*codecCase
	for xi, x := range items {
		if !x.it.Built {
			// Safe schemas are expected to build; a failure here is C13's finding, but it also means no codec can be run
			res.Count("unbuildable")
			res.Note("schema " + x.it.ID + " does not build: " + errorClass(x.it.BuildLog))
			if xi >= n {
				res.Corr("codec_file_unbuildable", "a codec file (gen.GenCodecFile) does not build: "+errorClass(x.it.BuildLog), map[string]any{"schema": x.req})
			}
			continue
		}
		rr := r.Fork(fmt.Sprint("vals-", xi))
		model := x.req.ToModel()
		// top-level messages and every nested declaration, under their full names
		type namedMsg struct {
			full string
			m    *ir.Message
		}
		var msgs []namedMsg
		var walkMsgs func(pfx string, ms []*ir.Message)
		walkMsgs = func(pfx string, ms []*ir.Message) {
			for _, m := range ms {
				msgs = append(msgs, namedMsg{pfx + m.Name, m})
				walkMsgs(pfx+m.Name+".", m.Nested)
			}
		}
		walkMsgs("."+x.file.Package+".", x.file.Messages)
		for _, nm := range msgs {
			m, full := nm.m, nm.full
			md := x.msgDesc(full)
			if md == nil {
				continue
			}
			var vals []*dynamicpb.Message
			for k := 0; k < per; k++ {
				sp := 2
				if k == 0 {
					sp = 8 // the default value
				}
				if k == 1 {
					sp = 0 // fully populated
				}
				vals = append(vals, gen.RandomMessage(rr, md, &gen.ValOpts{SparseP: sp, NonFinite: true}, 0))
			}
			if xi >= n {
				for k := 0; k < per/2; k++ {
					// finite floats only: non-finite ones end most encodings of the rich shapes early
					vals = append(vals, gen.RandomMessage(rr.Fork(fmt.Sprint("finite-", m.Name, k)), md, &gen.ValOpts{SparseP: 1 + k%5}, 0))
				}
			}
			// directed values (for every schema: the shapes exist in both generators)
			vals = append(vals, gen.CodecValues(md)...)
			for _, v := range vals {
				ks := &codecCase{x: x, full: full, name: m.Name, val: v}
				ks.encOp = map[string]any{"op": "enc", "type": strings.TrimPrefix(full, "."), "val": jsonRaw(gen.PJ(v))}
				ks.dop = map[string]any{"op": "spec_enc", "rq": model, "type": full, "val": gen.ValJSON(v)}
				all = append(all, ks)
			}
		}
	}
	byItem := map[*rtItem][]*codecCase{}
	for _, k := range all {
		byItem[k.x] = append(byItem[k.x], k)
	}
	outs := map[*codecCase]map[string]any{}
	var mu sync.Mutex
	var runErr error
	var its []*rtItem
	for x := range byItem {
		its = append(its, x)
	}
	parallel(len(its), func(i int) {
		x := its[i]
		var ops []any
		for _, k := range byItem[x] {
			ops = append(ops, k.encOp)
		}
		o, err := runItem(x, ops)
		mu.Lock()
		defer mu.Unlock()
		if err != nil {
			runErr = err
			return
		}
		for j, k := range byItem[x] {
			outs[k] = o[j]
		}
	})
	if runErr != nil {
		return runErr
	}
	var dops []map[string]any
	for _, k := range all {
		dops = append(dops, k.dop)
	}
	var douts []map[string]any
	if drv.Available() {
		if douts, err = drv.Run(dops); err != nil {
			res.Corr("driver", "Lean driver failed: "+err.Error(), nil)
			douts = nil
		}
	} else {
		res.Corr("driver", "Lean driver binary missing (model did not build)", nil)
	}
	// second pass: decode the contract-form JSON (Spec.enc) with the real decoder
	type decCase struct {
		k   *codecCase
		op  map[string]any
		out map[string]any
	}
	var decs []*decCase
	if douts != nil {
		for i, k := range all {
			spec := modelToPlainJSON(douts[i]["spec"])
			b, err := json.Marshal(spec)
			if err != nil {
				continue
			}
			decs = append(decs, &decCase{k: k, op: map[string]any{"op": "dec", "type": strings.TrimPrefix(k.full, "."), "json": b64(b)}})
		}
		byItemD := map[*rtItem][]*decCase{}
		for _, d := range decs {
			byItemD[d.k.x] = append(byItemD[d.k.x], d)
		}
		var its2 []*rtItem
		for x := range byItemD {
			its2 = append(its2, x)
		}
		parallel(len(its2), func(i int) {
			x := its2[i]
			var ops []any
			for _, d := range byItemD[x] {
				ops = append(ops, d.op)
			}
			o, err := runItem(x, ops)
			mu.Lock()
			defer mu.Unlock()
			if err != nil {
				runErr = err
				return
			}
			for j, d := range byItemD[x] {
				d.out = o[j]
			}
		})
		if runErr != nil {
			return runErr
		}
	}
	decOut := map[*codecCase]map[string]any{}
	for _, d := range decs {
		decOut[d.k] = d.out
	}
	for i, k := range all {
		o := outs[k]
		populated := false
		k.val.Range(func(protoreflect.FieldDescriptor, protoreflect.Value) bool { populated = true; return false })
		res.Case(map[string]any{"schema": k.x.it.ID, "type": k.name, "val": hashStr(string(gen.PJ(k.val)))}, populated)
		feat := featureOf(k.name)
		res.Count("type:" + feat)
		replay := map[string]any{"schema": k.x.req, "type": k.full, "value": jsonRaw(gen.PJ(k.val)), "real": o}
		// a decoder that does not reset its target: named by the template that emits the message's UnmarshalJSON
		reuseClass := featureOf(k.name)
		if im, _ := k.x.req.FindMessage(k.full); im != nil {
			if len(im.Fields) == 1 && im.Fields[0].Card == "map" && im.Fields[0].Ann.Unwrap {
				reuseClass = "root_map_unwrap"
			}
			for _, f := range im.Fields {
				if f.Card == "map" && f.Kind == "message" {
					if vm, _ := k.x.req.FindMessage(f.TypeName); vm != nil {
						for _, vf := range vm.Fields {
							if vf.Ann.Unwrap && vf.Card == "repeated" && !f.Ann.Unwrap {
								reuseClass = "unwrap_container"
							}
						}
					}
				}
			}
		}
		if rd, _ := o["reused_target_differs"].(bool); rd && prop == "C04" {
			res.Count("reused_target_differs:" + reuseClass)
			// the map-value-unwrap container template assigns member by member into the message it is given and never
			// resets it, the root map unwrap template decodes with json.Unmarshal(data, &x.<Map>), which keeps the entries
			// of a non-nil map (both recorded); every other generated decoder ends in protojson.Unmarshal, which resets
			res.Divergence("decoder_keeps_target_state:"+reuseClass, fmt.Sprintf("%s: decoding the encoder's JSON into a variable that already held another value of the type gives %s, into a fresh one %s (held before: %s)", k.name, clip(canon(o["reused_target_val"]), 200), clip(canon(o["rt"]), 200), clip(canon(o["reused_target_before"]), 160)), reuseClass == "unwrap_container" || reuseClass == "root_map_unwrap", replay)
		}
		if re, _ := o["reused_target_err"].(string); re != "" && prop == "C04" {
			res.Violation("decoder_keeps_target_state:"+reuseClass, k.name+": decoding the encoder's JSON into a variable that already held another value of the type fails ("+re+") while it succeeds into a fresh one", replay)
		}
		if al, _ := o["aliased"].(bool); al {
			res.Violation("encoder_result_aliased", k.name+": the bytes MarshalJSON returned changed when another value of the type was encoded afterwards (the result shares memory with a later encoding)", replay)
		}
		if fault, _ := o["fault"].(string); fault != "" {
			res.Violation("fault", k.name+": encoder "+fault, replay)
			continue
		}
		var d map[string]any
		if douts != nil {
			d = douts[i]
			replay["model"] = map[string]any{"spec": d["spec"], "impl": d["impl"], "template": d["template"], "impl_rt": d["impl_rt"], "impl_dec_spec": d["impl_dec_spec"]}
		}
		template, _ := d["template"].(string)
		cc := &codecCtx{res: res, k: k, prop: prop, feat: feat, template: template, replay: replay}
		if e, ok := o["err"].(string); ok && e != "" {
			// NaN / Inf and map<bool,_> cannot be encoded on the encoding/json paths; protojson can
			predicted := false
			if d != nil {
				predicted, _ = d["encode_fails"].(bool)
				if predicted {
					res.CorrAgree()
				} else {
					res.Corr("encode_error:"+feat, fmt.Sprintf("%s: the real encoder fails (%s), the model predicts success", k.name, e), replay)
				}
			}
			res.Divergence("encode_error:"+cc.encodeErrorCause(e), fmt.Sprintf("%s: encoding failed: %s", k.name, e), predicted, replay)
			continue
		}
		realJ := normJSON(o["json"])
		cc.realJSON = o["json"]
		implAgrees := false
		asym := false // the model says the server's own JSON form differs from the contract form for this value
		if d != nil {
			if p, _ := d["encode_fails"].(bool); p {
				res.Corr("encode_error:"+feat, k.name+": the model predicts an encoder error, the real encoder succeeded", replay)
			} else {
				implJ := normJSON(d["impl"])
				asym = firstDiff(normJSON(d["spec"]), implJ, "") != ""
				if diff := firstDiff(realJ, implJ, ""); diff == "" {
					implAgrees = true
					res.CorrAgree()
				} else {
					res.Corr("enc:"+feat, fmt.Sprintf("%s: the real encoder's output differs from the model at %s", k.name, diff), replay)
				}
			}
			// which encoder the server picks
			if rc, _ := o["custom"].(bool); rc != d["custom"] {
				res.Corr("encoder_choice:"+feat, fmt.Sprintf("%s: real type has MarshalJSON=%v, the model says %v", k.name, rc, d["custom"]), replay)
			}
		}
		if prop == "C05" && d != nil {
			specJ := normJSON(d["spec"])
			if diff := firstDiff(realJ, specJ, ""); diff != "" {
				cause := cc.mappingCause(diff)
				res.Divergence("mapping:"+cause, fmt.Sprintf("%s: server JSON differs from the documented mapping at %s (%s)", k.name, diff, cause), implAgrees, replay)
			}
		}
		if d == nil {
			continue
		}
		// the handler-visible request for a contract-form body (C05), = what another party's
		// canonical JSON decodes to (C04)
		if do := decOut[k]; do != nil {
			replay["decode_of_spec"] = do
			cc.unknownKeys = strList(d["spec_unknown_keys"])
			cc.decodeCheck("decode_contract_form", do["err"], do["fault"], do["val"], d["impl_dec_spec"], asym)
			cc.unknownKeys = nil
		}
		if prop == "C04" {
			// decode(encode v) = v up to the documented losses
			cc.decodeCheck("roundtrip", o["rt_err"], nil, o["rt"], d["impl_rt"], false)
		}
	}
	if prop == "C05" && douts != nil {
		idx := map[*codecCase]int{}
		for i, k := range all {
			idx[k] = i
		}
		if err := serveExchangeCheck(c, all, func(k *codecCase) (map[string]any, map[string]any) { return outs[k], douts[idx[k]] }); err != nil {
			return err
		}
	}
	res.Programs = len(items)
	return nil
}

// serveContentTypes are the request Content-Types of the real HTTP exchanges: marshalResponse picks
// the RESPONSE codec from the request's Content-Type (regenerated table Gen.Pipeline.marshalResponseTable).
var serveContentTypes = []struct{ name, ct string }{
	{"json", "application/json"}, {"json_charset", "application/json; charset=utf-8"}, {"absent", ""},
	{"text_plain", "text/plain;charset=UTF-8"}, {"form", "application/x-www-form-urlencoded"}, {"garbage", "garbage"},
}

// serveExchangeCheck sends, for a sample of (type, value) cases whose type is the OUTPUT of an RPC,
// real HTTP requests through the emitted server (handler returns the value) under several request
// Content-Types, and compares the response body with the encoder's output observed by the `enc`
// op / the Impl encoding (correspondence: the Lean model of the content-type -> codec table says
// JSON through the message's own MarshalJSON for all of them) and with the documented mapping
// (oracle).
func serveExchangeCheck(c *Ctx, all []*codecCase, obs func(*codecCase) (map[string]any, map[string]any)) error {
	res := c.Res
	var cops []map[string]any
	for _, ct := range serveContentTypes {
		cops = append(cops, map[string]any{"op": "resp_codec", "ct": ct.ct})
	}
	codecs, err := drv.Run(cops)
	if err != nil || len(codecs) != len(serveContentTypes) {
		res.Corr("driver", fmt.Sprintf("Lean driver failed on resp_codec: %v", err), nil)
		return nil
	}
	perType := c.N(2, 5)
	type exch struct {
		k   *codecCase
		ct  int
		op  map[string]any
		out map[string]any
	}
	var xs []*exch
	seen := map[string]int{}
	outputOf := map[*rtItem]map[string]*methodInfo{}
	for _, k := range all {
		mm, ok := outputOf[k.x]
		if !ok {
			mm = map[string]*methodInfo{}
			for _, mi := range k.x.methods() {
				if _, dup := mm[mi.m.Output]; !dup && mi.verb == "POST" && len(mi.pathVars) == 0 && k.x.opts.GoHTTP {
					mm[mi.m.Output] = mi
				}
			}
			outputOf[k.x] = mm
		}
		mi := mm[k.full]
		if mi == nil {
			continue
		}
		o, d := obs(k)
		if d == nil || o == nil || o["json"] == nil {
			continue // the encoder failed (or no model): nothing to compare a body with
		}
		if e, _ := o["err"].(string); e != "" {
			continue
		}
		populated := false
		k.val.Range(func(protoreflect.FieldDescriptor, protoreflect.Value) bool { populated = true; return false })
		key := k.x.it.ID + "|" + k.full
		if !populated || seen[key] >= perType {
			continue
		}
		seen[key]++
		for ci, ct := range serveContentTypes {
			op := serveOpFor(k.x, mi, gen.PJ(k.val))
			if ct.ct == "" {
				op["headers"] = [][2]string{}
			} else {
				op["headers"] = [][2]string{{"Content-Type", ct.ct}}
			}
			xs = append(xs, &exch{k: k, ct: ci, op: op})
		}
	}
	byItem := map[*rtItem][]*exch{}
	var its []*rtItem
	for _, x := range xs {
		if _, ok := byItem[x.k.x]; !ok {
			its = append(its, x.k.x)
		}
		byItem[x.k.x] = append(byItem[x.k.x], x)
	}
	var mu sync.Mutex
	var runErr error
	parallel(len(its), func(i int) {
		var ops []any
		for _, x := range byItem[its[i]] {
			ops = append(ops, x.op)
		}
		o, err := runItem(its[i], ops)
		mu.Lock()
		defer mu.Unlock()
		if err != nil {
			runErr = err
			return
		}
		for j, x := range byItem[its[i]] {
			x.out = o[j]
		}
	})
	if runErr != nil {
		return runErr
	}
	for _, x := range xs {
		k, ct := x.k, serveContentTypes[x.ct]
		o, d := obs(k)
		res.Count("serve_exchange:" + ct.name)
		replay := map[string]any{"schema": k.x.req, "type": k.full, "value": jsonRaw(gen.PJ(k.val)), "request_content_type": ct.ct, "serve": x.out, "enc": o,
			"model": map[string]any{"spec": d["spec"], "impl": d["impl"], "codec": codecs[x.ct]}}
		if fault, _ := x.out["fault"].(string); fault != "" {
			res.Violation("fault", fmt.Sprintf("%s: the server panics on a request with Content-Type %q: %s", k.name, ct.ct, fault), replay)
			continue
		}
		codec, _ := codecs[x.ct]["codec"].(string)
		status, _ := x.out["status"].(json.Number)
		respCT, _ := x.out["ct"].(string)
		isJSON := status.String() == "200" && x.out["body_json"] != nil && strings.HasPrefix(respCT, "application/json")
		if !isJSON {
			if codec == "json" {
				res.Corr("serve_status:"+ct.name, fmt.Sprintf("%s: request Content-Type %q: the model predicts a 200 JSON response, the server answered %s (%s)", k.name, ct.ct, status, clip(respCT, 60)), replay)
			}
			continue // a binary response: not this check's matter
		}
		bodyJ := normJSON(x.out["body_json"])
		implAgrees := false
		if codec != "json" {
			// the regenerated content-type table (Gen.Pipeline.marshalResponseTable / Default) has no JSON entry for it
			res.Corr("serve_codec:"+ct.name, fmt.Sprintf("%s: request Content-Type %q: the server answers JSON, the model's response-codec table says %q", k.name, ct.ct, codec), replay)
		} else {
			implJ := normJSON(d["impl"])
			if custom, _ := codecs[x.ct]["custom_marshaler"].(bool); !custom {
				implJ = normJSON(d["pj"])
			}
			if implAgrees = firstDiff(bodyJ, implJ, "") == ""; implAgrees {
				res.CorrAgree()
			} else {
				res.Corr("serve_body:"+ct.name, fmt.Sprintf("%s: request Content-Type %q: the response body differs from the Impl encoding at %s", k.name, ct.ct, firstDiff(bodyJ, implJ, "")), replay)
			}
		}
		if dEnc := firstDiff(bodyJ, normJSON(o["json"]), ""); dEnc != "" {
			// the body is not what the message's encoder (as the `enc` op picks it) produces: judge it against the documented mapping itself
			if dSpec := firstDiff(bodyJ, normJSON(d["spec"]), ""); dSpec != "" {
				res.Divergence("mapping:response_codec:"+ct.name, fmt.Sprintf("%s: request Content-Type %q: the HTTP response body differs from the documented mapping at %s (and from the message's own encoder output at %s)", k.name, ct.ct, dSpec, dEnc), implAgrees, replay)
			}
		}
	}
	return nil
}

// decodeCheck compares one decoding observed on the real code (error text or decoded value, as
// protojson of the result) with the original value (oracle) and with the Lean decoder model's
// prediction (correspondence). kind is "roundtrip" (input: the generated encoder's own output)
// or "decode_contract_form" (input: the documented JSON of the value). asym is the legacy
// explanation for the templates whose generated decoder is outside GoDec (DErr.unsupported).
func (cc *codecCtx) decodeCheck(kind string, realErrAny, faultAny, realVal, predAny any, asym bool) {
	res, k := cc.res, cc.k
	if fault, _ := faultAny.(string); fault != "" {
		res.Violation("fault", k.name+": decoder "+fault, cc.replay)
		return
	}
	realErr, _ := realErrAny.(string)
	pred, _ := predAny.(map[string]any)
	var predErr map[string]any
	var predVal any
	if pred != nil {
		predErr, _ = pred["err"].(map[string]any)
		predVal = pred["val"]
	}
	class, key := "", ""
	if predErr != nil {
		class, _ = predErr["class"].(string)
		key, _ = predErr["key"].(string)
	}
	errKey, valKey := kind+"_error:", kind+":"
	if kind == "decode_contract_form" {
		errKey, valKey = kind+":", kind+"_value:"
	}
	what := "the generated decoder rejects what the generated encoder produced"
	whatVal := "decode(encode(v)) differs from v beyond the documented losses"
	if kind == "decode_contract_form" {
		what = "the contract-form JSON is rejected"
		whatVal = "decoding the contract-form JSON yields a different message"
	}
	if pred == nil || class == "unsupported" {
		// no prediction: only the families whose decoder is plain surgery + protojson may be here
		if cc.template != "surgery" && cc.template != "root" {
			res.Corr("decode_model:"+cc.feat, fmt.Sprintf("%s: the decoder model gives no prediction (%s %s)", k.name, class, key), cc.replay)
		}
		agrees := asym && (cc.template == "surgery" || cc.template == "root")
		if realErr != "" {
			res.Divergence(errKey+cc.feat, fmt.Sprintf("%s: %s: %s", k.name, what, firstLine(realErr)), agrees, cc.replay)
			return
		}
		got := dynamicpb.NewMessage(k.val.Descriptor())
		if b, err := json.Marshal(realVal); err == nil {
			if err := protojsonUnmarshal(b, got); err == nil && !codecLossyEqual(k.x.req, k.full, k.val, got) {
				res.Divergence(valKey+cc.feat, fmt.Sprintf("%s: %s", k.name, whatVal), agrees, cc.replay)
			}
		}
		return
	}
	if realErr != "" {
		agrees := predErr != nil
		if agrees && class == "unknown_field" && plainIdent(key) && strings.Contains(realErr, "unknown field") && !strings.Contains(realErr, "unknown field \""+key+"\"") {
			// the real decoder stops at the first unknown member in DOCUMENT order, the model at the
			// first in its own traversal: any key the model calls unknown somewhere in the document agrees
			agrees = false
			for _, uk := range cc.unknownKeys {
				if strings.Contains(realErr, "unknown field \""+uk+"\"") {
					agrees = true
				}
			}
		}
		if agrees {
			res.CorrAgree()
		} else {
			res.Corr("dec:"+cc.feat, fmt.Sprintf("%s (%s): the real decoder fails (%s), the model predicts %v", k.name, kind, firstLine(realErr), pred), cc.replay)
		}
		if !agrees {
			class, key = "", ""
		}
		res.Divergence(errKey+cc.decodeErrorCause(class, key, realErr), fmt.Sprintf("%s: %s: %s", k.name, what, firstLine(realErr)), agrees, cc.replay)
		return
	}
	got := dynamicpb.NewMessage(k.val.Descriptor())
	b, err := json.Marshal(realVal)
	if err == nil {
		err = protojsonUnmarshal(b, got)
	}
	if err != nil {
		res.Corr("dec:"+cc.feat, fmt.Sprintf("%s (%s): cannot re-read the decoded value: %v", k.name, kind, err), cc.replay)
		return
	}
	agrees := false
	if predErr != nil {
		res.Corr("dec:"+cc.feat, fmt.Sprintf("%s (%s): the model predicts a decoder error (%s %s), the real decoder succeeded", k.name, kind, class, key), cc.replay)
	} else if pm, err := valToMsg(k.val.Descriptor(), predVal); err != nil {
		res.Corr("dec:"+cc.feat, fmt.Sprintf("%s (%s): unreadable model value: %v", k.name, kind, err), cc.replay)
	} else if proto.Equal(got, pm) {
		agrees = true
		res.CorrAgree()
	} else {
		res.Corr("dec:"+cc.feat, fmt.Sprintf("%s (%s): the decoded message differs from the model's: real %s, model %s", k.name, kind, gen.PJ(got), gen.PJ(pm)), cc.replay)
	}
	if !codecLossyEqual(k.x.req, k.full, k.val, got) {
		res.Divergence(valKey+cc.decodeValueCause(got), fmt.Sprintf("%s: %s", k.name, whatVal), agrees, cc.replay)
	}
}

// modelToPlainJSON turns the driver's {"$int"/"$float": text} wrappers into JSON numbers.
func modelToPlainJSON(v any) any {
	switch x := v.(type) {
	case map[string]any:
		if len(x) == 1 {
			if t, ok := x["$int"].(string); ok {
				return json.Number(t)
			}
			if t, ok := x["$float"].(string); ok {
				return json.Number(t)
			}
		}
		out := map[string]any{}
		for k, e := range x {
			out[k] = modelToPlainJSON(e)
		}
		return out
	case []any:
		out := make([]any, len(x))
		for i, e := range x {
			out[i] = modelToPlainJSON(e)
		}
		return out
	}
	return v
}

// contextOf names (feature, context) of the schema position a JSON diff path points at.
func contextOf(req *ir.Request, full string, diff string) string {
	m, _ := req.FindMessage(full)
	if m == nil {
		return "?"
	}
	parts := strings.Split(strings.TrimPrefix(diff, "/"), "/")
	top := featureOf(m.Name)
	if top != "parent" {
		// which field of the top-level message?
		if len(parts) > 0 {
			for _, f := range m.Fields {
				if f.JSON() == parts[0] && f.Kind == "message" && len(parts) > 1 && f.TypeName != ".google.protobuf.Timestamp" {
					cm, _ := req.FindMessage(f.TypeName)
					if cm != nil {
						ctx := "child"
						switch f.Card {
						case "repeated":
							ctx = "list_element"
						case "map":
							ctx = "map_value"
						}
						if f.Oneof != "" {
							ctx = "oneof_variant"
						}
						return featureOf(cm.Name) + "@" + ctx + "_of_" + top
					}
				}
			}
		}
		return top + "@top"
	}
	if len(parts) > 0 {
		for _, f := range m.Fields {
			if f.JSON() == parts[0] && f.Kind == "enum" {
				// an enum field of the parent itself: the enum annotations never reach the wire
				if f.Ann.EnumEnc == "NUMBER" {
					return "enumnum@top"
				}
				return "enumval@top"
			}
			if f.JSON() == parts[0] {
				cm, _ := req.FindMessage(f.TypeName)
				ctx := "child"
				switch f.Card {
				case "repeated":
					ctx = "list_element"
				case "map":
					ctx = "map_value"
				}
				if cm != nil {
					return featureOf(cm.Name) + "@" + ctx
				}
			}
		}
	}
	return top + "@top"
}
