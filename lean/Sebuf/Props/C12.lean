import Sebuf.Validate
import Sebuf.Rules
import Sebuf.Lemmas.PropsC12
/-!
# C12 — misused annotations stop generation; valid definitions are never refused

`Sound` (full statement): every breach of a documented rule, wherever it sits in the request,
makes go-http fail (and go-client for the JSON-mapping rules other than unwrap).
The current code does not satisfy it (`not_sound_imported`, `repeated_path_field_refused`);
`sound_partial_goHttp` / `sound_partial_goClient` prove it for offenders inside a file to
generate, for every rule except the two whose proof is not carried (`flattenCollision`, decided
by correspondence only), and for
enum conflicts on non-map fields.

The theorems are about `Impl.runGoHttp`/`runGoClient`, which interpret the call sequence of
`generateFile` regenerated into `Gen.Wiring` on every run: `wiring_*` are closed by `decide`
over the current sequence.

Helper lemmas (list plumbing, validator-to-run steps, the per-rule `*_fires` lemmas) and the
definitions `beforeCut` / `stepHas` are in `Sebuf.Lemmas.PropsC12`.
-/
namespace Sebuf.C12
open Sebuf Sebuf.Impl Sebuf.Spec

/-! ## wiring: which validators run, and where -/

def requiredJson : List V :=
  [.enumConflict, .nullable, .emptyBehavior, .timestamp, .bytes, .flattenField, .oneof]

/-- **wiring (go-http)**: every JSON-mapping validator is called, on nested messages too, before
the early return for service-less files. Closed by `decide` on the regenerated call sequence. -/
theorem wiring_goHttp : ∀ v ∈ requiredJson,
    ∃ st ∈ beforeCut Gen.Wiring.goHttp, stepHas st v = true ∧ st.2.2 = true := by decide

/-- **wiring (go-client)**: the same for the client plugin. -/
theorem wiring_goClient : ∀ v ∈ requiredJson,
    ∃ st ∈ beforeCut Gen.Wiring.goClient, stepHas st v = true ∧ st.2.2 = true := by decide

/-- **wiring (unwrap)**: go-http collects (and so validates) unwrap annotations of every file to
generate before any file is emitted. -/
theorem wiring_unwrap : Gen.Wiring.goHttpPre.contains "annotations.GetUnwrapField" = true := by decide

/-- **wiring (HTTP rules)**: `ValidateMethodConfig` runs for files with services, before the
emitters of the HTTP files. -/
theorem wiring_http : ∃ st ∈ Gen.Wiring.goHttp, stepHas st .methodConfig = true ∧
    (st.1 == "return_if_no_services") = false := by decide

/-- **wiring**: both plugins skip files that are not to be generated (so imported files are
never validated — see `not_sound_imported`). -/
theorem wiring_skips_imported :
    Gen.Wiring.goHttpSkipsNonGenerate = true ∧ Gen.Wiring.goClientSkipsNonGenerate = true := by decide

/-! ## from one validator to the whole run -/

/-- a JSON-mapping validator that fires on a generated file stops go-http. -/
theorem goHttp_rejects (rq : Request) (f : File) (hf : f ∈ generated rq) (v : V) (hv : v ∈ requiredJson)
    (h : (applyV rq f true v).isSome = true) : (runGoHttp rq).isSome = true := by
  obtain ⟨st, hst, hhas, hn⟩ := wiring_goHttp v hv
  refine runGoHttp_of_file rq f hf (runSteps_of_beforeCut rq f _ st hst ?_)
  exact runStep_of_validator rq f st v hhas (by rw [hn]; exact h)

/-- a JSON-mapping validator that fires on a generated file stops go-client. -/
theorem goClient_rejects (rq : Request) (f : File) (hf : f ∈ generated rq) (v : V) (hv : v ∈ requiredJson)
    (h : (applyV rq f true v).isSome = true) : (runGoClient rq).isSome = true := by
  obtain ⟨st, hst, hhas, hn⟩ := wiring_goClient v hv
  refine runGoClient_of_file rq f hf (runSteps_of_beforeCut rq f _ st hst ?_)
  exact runStep_of_validator rq f st v hhas (by rw [hn]; exact h)

/-! ## assembly: every breach inside a generated file stops generation -/

/-- side condition: no `enum_encoding` on map fields (the code does not look at map values;
witness `enum_on_map_accepted`). -/
def NoEnumEncOnMaps (f : File) : Prop :=
  ∀ m ∈ f.messages, ∀ fld ∈ m.fields, fld.card = .map → fld.enumEnc = 0

/-- a JSON-mapping validator that fires on a generated file stops both Go plugins. -/
theorem both_reject (rq : Request) (f : File) (hf : f ∈ generated rq) (v : V) (hv : v ∈ requiredJson)
    (h : (applyV rq f true v).isSome = true) :
    (runGoHttp rq).isSome = true ∧ (runGoClient rq).isSome = true :=
  ⟨goHttp_rejects rq f hf v hv h, goClient_rejects rq f hf v hv h⟩

/-- every field-level breach in a generated file stops go-http, and go-client too unless it is an
unwrap rule (which only go-http validates). -/
theorem field_breach_rejected (rq : Request) (f : File) (hf : f ∈ generated rq)
    (hmap : NoEnumEncOnMaps f) (m : Message) (hm : m ∈ f.messages) (fld : Field) (hfld : fld ∈ m.fields)
    (r : Rule) (hr : r ∈ fieldBreaches rq fld) :
    (runGoHttp rq).isSome = true ∧ (r.isUnwrap = false → (runGoClient rq).isSome = true) := by
  unfold fieldBreaches at hr
  simp only [List.mem_append] at hr
  rcases hr with (((((((h | h) | h) | h) | h) | h) | h) | h) | h
  · -- unwrap on a non-repeated field
    obtain ⟨hc, rfl⟩ := mem_ite_single h
    simp only [Bool.and_eq_true, bne_iff_ne, ne_eq] at hc
    refine ⟨runGoHttp_of_unwrap rq f hf m hm (unwrapNotRepeated_fires m fld hfld hc.1.1 hc.1.2 hc.2), ?_⟩
    intro hu; cases hu
  · obtain ⟨hc, rfl⟩ := mem_ite_single h
    simp only [Bool.and_eq_true, bne_iff_ne, ne_eq] at hc
    have := both_reject rq f hf .nullable (by decide)
      (perField_isSome f m fld nullableCheck hm hfld (nullable_fires fld hc.1 (Or.inl hc.2)))
    exact ⟨this.1, fun _ => this.2⟩
  · obtain ⟨hc, rfl⟩ := mem_ite_single h
    simp only [Bool.and_eq_true, beq_iff_eq] at hc
    have := both_reject rq f hf .nullable (by decide)
      (perField_isSome f m fld nullableCheck hm hfld (nullable_fires fld hc.1 (Or.inr hc.2)))
    exact ⟨this.1, fun _ => this.2⟩
  · obtain ⟨hc, rfl⟩ := mem_ite_single h
    simp only [Bool.and_eq_true, Bool.or_eq_true, bne_iff_ne, ne_eq, beq_iff_eq] at hc
    have h2 : fld.kind ≠ .message ∨ fld.card = .repeated ∨ fld.card = .map := by
      rcases hc.2 with (h2 | h2) | h2
      · exact Or.inl h2
      · exact Or.inr (Or.inl h2)
      · exact Or.inr (Or.inr h2)
    have := both_reject rq f hf .emptyBehavior (by decide)
      (perField_isSome f m fld emptyBehaviorCheck hm hfld (emptyBehavior_fires fld hc.1 h2))
    exact ⟨this.1, fun _ => this.2⟩
  · obtain ⟨hc, rfl⟩ := mem_ite_single h
    simp only [Bool.and_eq_true, bne_iff_ne, ne_eq, Bool.not_eq_true'] at hc
    have := both_reject rq f hf .timestamp (by decide)
      (perField_isSome f m fld timestampCheck hm hfld (timestamp_fires fld hc.1 hc.2))
    exact ⟨this.1, fun _ => this.2⟩
  · obtain ⟨hc, rfl⟩ := mem_ite_single h
    simp only [Bool.and_eq_true, Bool.or_eq_true, bne_iff_ne, ne_eq, beq_iff_eq] at hc
    have := both_reject rq f hf .bytes (by decide)
      (perField_isSome f m fld bytesCheck hm hfld (bytes_fires fld hc.1 hc.2))
    exact ⟨this.1, fun _ => this.2⟩
  · obtain ⟨hc, rfl⟩ := mem_ite_single h
    simp only [Bool.and_eq_true, Bool.or_eq_true, bne_iff_ne, ne_eq, beq_iff_eq] at hc
    have h2 : fld.card = .repeated ∨ fld.card = .map ∨ fld.kind ≠ .message ∨ fld.oneof.isSome = true := by
      rcases hc.2 with ((h2 | h2) | h2) | h2
      · exact Or.inl h2
      · exact Or.inr (Or.inl h2)
      · exact Or.inr (Or.inr (Or.inl h2))
      · exact Or.inr (Or.inr (Or.inr h2))
    have := both_reject rq f hf .flattenField (by decide)
      (perField_isSome f m fld flattenFieldCheck hm hfld (flattenField_fires fld hc.1 h2))
    exact ⟨this.1, fun _ => this.2⟩
  · obtain ⟨hc, rfl⟩ := mem_ite_single h
    simp only [Bool.and_eq_true, Bool.not_eq_true', bne_iff_ne, ne_eq] at hc
    have := both_reject rq f hf .flattenField (by decide)
      (perField_isSome f m fld flattenFieldCheck hm hfld (prefix_fires fld hc.1 hc.2))
    exact ⟨this.1, fun _ => this.2⟩
  · obtain ⟨hc, rfl⟩ := mem_ite_single h
    simp only [Bool.and_eq_true, beq_iff_eq] at hc
    have hnm : fld.card ≠ .map := by
      intro hm'
      have := hmap m hm fld hfld hm'
      rw [this] at hc
      exact absurd hc.1.2 (by decide)
    have := both_reject rq f hf .enumConflict (by decide)
      (perField_isSome f m fld (enumCheck rq) hm hfld (enum_fires rq fld hc.1.1 hnm hc.1.2 hc.2))
    exact ⟨this.1, fun _ => this.2⟩

/-- every oneof-level breach in a generated file stops both Go plugins. -/
theorem oneof_breach_rejected (rq : Request) (f : File) (hf : f ∈ generated rq)
    (m : Message) (hm : m ∈ f.messages) (o : OneofDecl) (ho : o ∈ m.oneofs)
    (r : Rule) (hr : r ∈ oneofBreaches rq m o) :
    (runGoHttp rq).isSome = true ∧ (runGoClient rq).isSome = true := by
  unfold oneofBreaches at hr
  by_cases hcfg : o.hasConfig = true
  · simp only [hcfg, Bool.not_true, Bool.false_eq_true, if_false, List.mem_append] at hr
    have fire : (oneofCheck rq m).isSome = true := by
      rcases hr with (h | h) | h
      · obtain ⟨hc, _⟩ := mem_ite_single h
        exact oneofCheck_of rq m o ho hcfg (Or.inl (discriminator_fires m o hc))
      · obtain ⟨hc, _⟩ := mem_ite_single h
        simp only [Bool.and_eq_true] at hc
        exact oneofCheck_of rq m o ho hcfg (Or.inr ⟨hc.1, oneofFlattenScalar_fires rq m o hc.2⟩)
      · obtain ⟨hc, _⟩ := mem_ite_single h
        simp only [Bool.and_eq_true] at hc
        exact oneofCheck_of rq m o ho hcfg (Or.inr ⟨hc.1, oneofFlattenCollision_fires rq m o hc.2⟩)
    refine both_reject rq f hf .oneof (by decide) ?_
    show ((msgsOf f true).findSome? (oneofCheck rq)).isSome = true
    unfold msgsOf
    simp only [if_true]
    exact findSome_isSome hm fire
  · simp [hcfg] at hr

/-- **C12 soundness, partial (go-http and go-client)**: a breach of a documented rule inside a
file to generate makes go-http answer with an error; for the JSON-mapping rules other than
unwrap the go-client plugin fails too. Not covered: `flattenCollision` (decided by the
correspondence run only). `pathVarNotSingular` is covered since `fix: go-http: refuse path
variables bound to repeated or map fields`. -/
theorem sound_partial (rq : Request) (f : File) (hf : f ∈ generated rq) (hmap : NoEnumEncOnMaps f)
    (b : Breach) (hb : b ∈ fileBreaches rq f)
    (h2 : b.rule ≠ .flattenCollision) :
    (runGoHttp rq).isSome = true ∧
    (b.rule.isJsonMapping = true → b.rule.isUnwrap = false → (runGoClient rq).isSome = true) := by
  unfold fileBreaches at hb
  rcases List.mem_append.mp hb with hb | hb
  · obtain ⟨m, hm, hbm⟩ := List.mem_flatMap.mp hb
    unfold messageBreaches at hbm
    simp only [List.mem_append] at hbm
    rcases hbm with (((hbm | hbm) | hbm) | hbm) | hbm
    · obtain ⟨fld, hfld, hbf⟩ := List.mem_flatMap.mp hbm
      obtain ⟨r, hr, rfl⟩ := List.mem_map.mp hbf
      have := field_breach_rejected rq f hf hmap m hm fld hfld r hr
      exact ⟨this.1, fun _ hu => this.2 hu⟩
    · -- two unwrap fields
      split at hbm
      · rename_i a v rest heq
        have hbr : b.rule = .unwrapTwice := by simp at hbm; rw [hbm]
        refine ⟨runGoHttp_of_unwrap rq f hf m hm (unwrapTwice_fires m _ v _ heq), ?_⟩
        intro _ hu; rw [hbr] at hu; cases hu
      · cases hbm
    · -- map unwrap beside other fields
      split at hbm
      · rename_i fld hfind
        by_cases hl : (m.fields.length != 1) = true
        · simp only [hl, if_true, List.mem_singleton] at hbm
          have hbr : b.rule = .mapUnwrapNotAlone := by rw [hbm]
          refine ⟨runGoHttp_of_unwrap rq f hf m hm (mapUnwrapNotAlone_fires m fld hfind (by simpa using hl)), ?_⟩
          intro _ hu; rw [hbr] at hu; cases hu
        · simp [hl] at hbm
      · cases hbm
    · exfalso
      split at hbm
      · simp only [List.mem_singleton] at hbm
        apply h2; rw [hbm]
      · cases hbm
    · obtain ⟨o, ho, hbo⟩ := List.mem_flatMap.mp hbm
      obtain ⟨r, hr, _⟩ := List.mem_map.mp hbo
      have := oneof_breach_rejected rq f hf m hm o ho r hr
      exact ⟨this.1, fun _ _ => this.2⟩
  · -- HTTP rules: ValidateService runs for files with services
    obtain ⟨s, hs, hbs⟩ := List.mem_flatMap.mp hb
    obtain ⟨meth, hmeth, hbm⟩ := List.mem_flatMap.mp hbs
    have hfire := methodCheck_fires rq meth b f.name hbm
    have hsvc : (f.services.findSome? (serviceCheck rq)).isSome = true :=
      findSome_isSome hs (by unfold serviceCheck; exact findSome_isSome hmeth hfire)
    obtain ⟨st, hst, hhas, hne⟩ := wiring_http
    have hne' : f.services.isEmpty = false := by
      cases hfs : f.services with
      | nil => rw [hfs] at hs; cases hs
      | cons _ _ => rfl
    refine ⟨runGoHttp_of_file rq f hf (runSteps_of_mem rq f hne' _ st hst hne
      (runStep_of_validator rq f st .methodConfig hhas hsvc)), ?_⟩
    intro hj
    -- HTTP rules are not JSON-mapping rules
    exfalso
    unfold methodBreaches at hbm
    by_cases hcfg : meth.hasConfig = true
    · simp only [hcfg, Bool.not_true, Bool.false_eq_true, if_false, List.mem_append] at hbm
      rcases hbm with (hbm | hbm) | hbm
      · obtain ⟨p, _, hbp⟩ := List.mem_flatMap.mp hbm
        split at hbp
        · simp only [List.mem_singleton] at hbp; rw [hbp] at hj; cases hj
        · rcases List.mem_append.mp hbp with h | h
          · split at h
            · simp only [List.mem_singleton] at h; rw [h] at hj; cases hj
            · cases h
          · split at h
            · simp only [List.mem_singleton] at h; rw [h] at hj; cases hj
            · cases h
      · obtain ⟨q, _, hq⟩ := List.mem_map.mp hbm
        rw [← hq] at hj; cases hj
      · split at hbm
        · obtain ⟨q, _, hq⟩ := List.mem_map.mp hbm
          rw [← hq] at hj; cases hj
        · cases hbm
    · simp [hcfg] at hbm

/-! ## the full statement and why it fails today -/

/-- Full soundness as the property states it: wherever the offender sits in the request. -/
def Sound : Prop := ∀ (rq : Request) (b : Breach), b ∈ breaches rq →
  (runGoHttp rq).isSome = true ∧
  (b.rule.isJsonMapping = true → b.rule.isUnwrap = false → (runGoClient rq).isSome = true)

def badField : Field := { name := "maybe".toList, kind := .string, nullable := true }
def badMsg : Message := { fullName := ".p.Bad".toList, name := "Bad".toList, fields := [badField] }

/-- an imported (not generated) file with `nullable` on a non-optional field. -/
def importedWitness : Request :=
  { files := [{ name := "imp.proto".toList, generate := false, messages := [badMsg] },
              { name := "main.proto".toList, generate := true }] }

/-- **¬ Sound** (known finding C12 `accepted:offender_in_imported_file`): both plugins skip
files that are not to be generated, so an offender in an imported file is accepted. -/
theorem not_sound_imported : ¬ Sound := by
  intro h
  have := (h importedWitness ⟨.nullableNotOptional, "maybe".toList, "imp.proto".toList, ".p.Bad".toList⟩ (by decide)).1
  revert this; decide

def listIdField : Field := { name := "id".toList, kind := .string, card := .repeated }
def listIdReq : Message := { fullName := ".p.Req".toList, name := "Req".toList, fields := [listIdField] }
def listIdMeth : Method :=
  { name := "Get".toList
    input := ".p.Req".toList
    output := ".p.Req".toList
    hasConfig := true
    path := "/things/{id}".toList
    verbNum := 2 }
def repeatedPathWitness : Request :=
  { files := [{ name := "main.proto".toList, generate := true, messages := [listIdReq],
                services := [{ name := "S".toList, methods := [listIdMeth] }] }] }

/-- a path variable bound to a `repeated` field is a breach (`pathVarNotSingular`) and go-http
refuses it (entry `accepted:go-http:path_var_not_singular`, fixed). -/
theorem repeated_path_field_refused :
    (∃ b ∈ breaches repeatedPathWitness, b.rule = .pathVarNotSingular) ∧ (runGoHttp repeatedPathWitness).isSome = true := by
  refine ⟨⟨⟨.pathVarNotSingular, "id".toList, "main.proto".toList, ".p.Req".toList⟩, ?_, rfl⟩, ?_⟩ <;> decide

/-- non-vacuity of `sound_partial`: a generated file with a breach meeting every hypothesis. -/
example : let rq : Request := { files := [{ name := "main.proto".toList, generate := true, messages := [badMsg] }] }
    (∃ f ∈ generated rq, NoEnumEncOnMaps f ∧ ∃ b ∈ fileBreaches rq f, b.rule ≠ .flattenCollision)
    ∧ (runGoHttp rq).isSome = true := by
  refine ⟨⟨_, List.mem_singleton.mpr rfl, ?_, ⟨.nullableNotOptional, "maybe".toList, "main.proto".toList, ".p.Bad".toList⟩, ?_, ?_⟩, ?_⟩
  · intro m hm fld hfld hc
    simp at hm; subst hm
    simp [badMsg] at hfld; subst hfld
    simp [badField] at hc
  · decide
  · decide
  · decide

/-! ## valid definitions that are refused, and a conflict that is not seen (witnesses) -/

def Complete : Prop := ∀ rq : Request, ruleFree rq = true →
  runGoHttp rq = none ∧ runGoClient rq = none ∧ runTsServer rq = none

def leafMsg : Message := { fullName := ".p.Leaf".toList, name := "Leaf".toList, fields := [{ name := "street".toList, kind := .string }] }

def flatPlusNullable : Message :=
  { fullName := ".p.M".toList
    name := "M".toList
    fields := [{ name := "home".toList, kind := .message, typeName := ".p.Leaf".toList, flatten := true },
               { name := "maybe".toList, kind := .string, card := .optional, nullable := true }] }

def conflictWitness : Request :=
  { files := [{ name := "main.proto".toList, generate := true, messages := [leafMsg, flatPlusNullable] }] }

/-- **¬ Complete** (known finding C12 `refused_valid:marshaljson_conflict`): flatten and nullable
on one message break no documented rule, yet both Go plugins refuse the definition. -/
theorem not_complete_conflict : ¬ Complete := by
  intro h
  have := (h conflictWitness (by decide)).1
  revert this; decide

def optFlat : Message :=
  { fullName := ".p.O".toList
    name := "O".toList
    fields := [{ name := "home".toList, kind := .message, typeName := ".p.Leaf".toList, card := .optional, flatten := true }] }

/-- known finding C12 `refused_valid:flatten_on_optional_message`: `optional` puts the field in a
synthetic oneof, which the flatten validator mistakes for a oneof variant. -/
theorem optional_flatten_refused :
    let rq : Request := { files := [{ name := "main.proto".toList, generate := true, messages := [leafMsg, optFlat] }] }
    ruleFree rq = true ∧ (runGoHttp rq).isSome = true := by decide

def enumOnMap : Message :=
  { fullName := ".p.E".toList
    name := "E".toList
    fields := [{ name := "state".toList, kind := .enum, typeName := ".p.St".toList, card := .map, enumEnc := 2 }] }

/-- known finding C12 `accepted:*:enum_number_with_custom_values` (map-valued field): the enum
conflict check looks at the descriptor kind, which is `message` for a map field. -/
theorem enum_on_map_accepted :
    let rq : Request := { files := [{ name := "main.proto".toList, generate := true, messages := [enumOnMap],
                                      enums := [{ fullName := ".p.St".toList, hasCustom := true }] }] }
    ruleFree rq = false ∧ runGoHttp rq = none ∧ runGoClient rq = none := by decide

end Sebuf.C12
