/-
C16 (termination of message-graph traversals).

* `collect` models the visited-set traversals of the generators
  (`tscommon.MessageSet.AddMessage`, `openapiv3` `collectMessages`): it is defined WITHOUT
  fuel; Lean accepts it because the number of graph nodes not yet visited decreases. The
  accepted definition is the termination theorem.
* `mockAssign` models the unguarded recursion of `httpgen/mock_generator.go`
  `generateMockFieldAssignments` (recursion into every singular message field, no visited
  set); it needs fuel to be total, and runs out of any amount of fuel on a self-recursive
  message.
* `mockAssignGuarded` is the same recursion with a recursion-path guard (what a fix would add);
  again defined without fuel.
-/
import Sebuf.Str

namespace Sebuf

/-- Adjacency list: message full name ↦ full names of the message types of its fields. -/
abbrev Graph := List (Str × List Str)

/-- Adjacency lookup (first binding wins). -/
def glookup (n : Str) : Graph → Option (List Str)
  | [] => none
  | (k, ss) :: r => if k = n then some ss else glookup n r

/-- Successors of a node; a name that is not a key of the graph has none. -/
def succs (g : Graph) (n : Str) : List Str := (glookup n g).getD []

/-- The keys (declared messages) of the graph. -/
def gkeys (g : Graph) : List Str := g.map Prod.fst

/-- How many of `keys` are not in `visited`. -/
def countNotIn (visited : List Str) : List Str → Nat
  | [] => 0
  | k :: ks => (if k ∈ visited then 0 else 1) + countNotIn visited ks

/-- The termination measure: number of graph nodes not yet visited. -/
def unvisited (g : Graph) (visited : List Str) : Nat := countNotIn visited (gkeys g)

theorem countNotIn_mono (v v' : List Str) (hsub : ∀ x, x ∈ v → x ∈ v') (keys : List Str) :
    countNotIn v' keys ≤ countNotIn v keys := by
  induction keys with
  | nil => exact Nat.le_refl _
  | cons k ks ih =>
    unfold countNotIn
    by_cases hk : k ∈ v
    · have := hsub k hk
      simp only [hk, this, if_true]; omega
    · by_cases hk' : k ∈ v'
      · simp only [hk, hk', if_true, if_false]; omega
      · simp only [hk, hk', if_false]; omega

theorem countNotIn_lt (v v' : List Str) (hsub : ∀ x, x ∈ v → x ∈ v') (keys : List Str)
    (k : Str) (hk : k ∈ keys) (hkv : k ∉ v) (hkv' : k ∈ v') :
    countNotIn v' keys < countNotIn v keys := by
  induction keys with
  | nil => cases hk
  | cons k₀ ks ih =>
    have hmono := countNotIn_mono v v' hsub ks
    unfold countNotIn
    rcases List.mem_cons.mp hk with rfl | hk'
    · simp only [hkv, hkv', if_true, if_false]; omega
    · have := ih hk'
      by_cases h0 : k₀ ∈ v
      · have := hsub k₀ h0
        simp only [h0, this, if_true]; omega
      · by_cases h0' : k₀ ∈ v'
        · simp only [h0, h0', if_true, if_false]; omega
        · simp only [h0, h0', if_false]; omega

theorem glookup_none_of_not_key (g : Graph) (n : Str) (h : n ∉ gkeys g) : glookup n g = none := by
  induction g with
  | nil => rfl
  | cons p r ih =>
    obtain ⟨k, ss⟩ := p
    have h' : ¬ (n = k) ∧ n ∉ gkeys r := by simpa [gkeys] using h
    unfold glookup
    have hk : ¬ k = n := fun e => h'.1 e.symm
    simp only [hk, if_false]
    exact ih h'.2

theorem mem_gkeys_of_glookup (g : Graph) (n : Str) (ss : List Str) (h : glookup n g = some ss) :
    n ∈ gkeys g := by
  apply Classical.byContradiction
  intro hn
  rw [glookup_none_of_not_key g n hn] at h
  cases h

theorem succs_nil_of_not_key (g : Graph) (n : Str) (h : n ∉ gkeys g) : succs g n = [] := by
  unfold succs; rw [glookup_none_of_not_key g n h]; rfl

/-- Visiting a not-yet-visited key strictly decreases the measure. -/
theorem unvisited_append_lt (g : Graph) (visited : List Str) (n : Str)
    (hk : n ∈ gkeys g) (hv : n ∉ visited) :
    unvisited g (visited ++ [n]) < unvisited g visited :=
  countNotIn_lt visited (visited ++ [n]) (fun _ hx => List.mem_append_left _ hx) _ n hk hv
    (List.mem_append_right _ List.mem_cons_self)

theorem unvisited_cons_lt (g : Graph) (path : List Str) (n : Str)
    (hk : n ∈ gkeys g) (hv : n ∉ path) :
    unvisited g (n :: path) < unvisited g path :=
  countNotIn_lt path (n :: path) (fun _ hx => List.mem_cons_of_mem _ hx) _ n hk hv
    List.mem_cons_self

set_option linter.unusedVariables false in
/-- The guarded traversal (`MessageSet.AddMessage` / `collectMessages`), as a work-list
depth-first search: `visited` is `ms.order` (discovery order; membership is `ms.seen`), the head
of `todo` is the message `AddMessage` is being called on, its fields' message types are pushed in
front of the pending calls. No fuel: the pair (unvisited graph nodes, pending calls) decreases
lexicographically. -/
def collect (g : Graph) (visited todo : List Str) : List Str :=
  match todo with
  | [] => visited
  | n :: rest =>
    if hv : n ∈ visited then collect g visited rest
    else collect g (visited ++ [n]) (succs g n ++ rest)
termination_by (unvisited g visited, todo.length)
decreasing_by
  · exact Prod.Lex.right _ (by simp)
  · by_cases hk : n ∈ gkeys g
    · exact Prod.Lex.left _ _ (unvisited_append_lt g visited n hk hv)
    · rw [succs_nil_of_not_key g n hk]
      have hle : unvisited g (visited ++ [n]) ≤ unvisited g visited :=
        countNotIn_mono visited (visited ++ [n]) (fun _ hx => List.mem_append_left _ hx) _
      rcases Nat.lt_or_eq_of_le hle with hlt | heq
      · exact Prod.Lex.left _ _ hlt
      · rw [heq]; exact Prod.Lex.right _ (by simp)

/-- Result of a fuel-bounded emitter run. -/
inductive Outcome where
  | done (emitted : Nat)
  | outOfFuel
deriving DecidableEq, Repr

/-- Sequencing two emitter runs: the counts add; running out of fuel is absorbing. -/
def Outcome.add : Outcome → Outcome → Outcome
  | .done a, .done b => .done (a + b)
  | _, _ => .outOfFuel

/-- Sum of a list of runs, starting from `acc`. -/
def Outcome.sumFrom (acc : Outcome) : List Outcome → Outcome
  | [] => acc
  | o :: os => Outcome.sumFrom (acc.add o) os

/-- The UNGUARDED recursion of `generateMockFieldAssignments`: one assignment block for the
message itself, then a recursive call for every message-typed field. `fuel` bounds the
recursion depth only to make the model total. -/
def mockAssign (g : Graph) : (fuel : Nat) → (msg : Str) → Outcome
  | 0, _ => .outOfFuel
  | fuel + 1, msg => Outcome.sumFrom (.done 1) ((succs g msg).map (fun s => mockAssign g fuel s))

set_option linter.unusedVariables false in
/-- The recursion with a path guard (skip a message already on the current recursion path).
No fuel: the number of graph nodes not on the path decreases. -/
def mockAssignGuarded (g : Graph) (path : List Str) (msg : Str) : Outcome :=
  if hp : msg ∈ path then .done 0
  else
    match hl : glookup msg g with
    | none => .done 1
    | some ss =>
      Outcome.sumFrom (.done 1) (ss.map (fun s => mockAssignGuarded g (msg :: path) s))
termination_by unvisited g path
decreasing_by
  exact unvisited_cons_lt g path msg (mem_gkeys_of_glookup g msg ss hl) hp

end Sebuf

namespace Sebuf

/-! ### how much the unguarded mock recursion emits

`generateMockFieldAssignments` re-emits the assignments of a message type once per PATH that
reaches it, so on a DAG-shaped response type the emitted text is the size of the unfolded tree.
`mockWork` computes that size (saturating at `cap`) by `|g|` rounds of relaxation — polynomial,
unlike the recursion it measures. -/

def workOf (sz : List (Str × Nat)) (n : Str) : Nat := (sz.lookup n).getD 1

def workStep (g : Graph) (cap : Nat) (sz : List (Str × Nat)) : List (Str × Nat) :=
  g.map fun p => (p.1, min cap (1 + (p.2.map (workOf sz)).sum))

def workRounds (g : Graph) (cap : Nat) : Nat → List (Str × Nat) → List (Str × Nat)
  | 0, sz => sz
  | k + 1, sz => workRounds g cap k (workStep g cap sz)

/-- emitted assignment blocks for a response of type `root` (≥ `cap` means "at least cap"). -/
def mockWork (g : Graph) (cap : Nat) (root : Str) : Nat :=
  workOf (workRounds g cap g.length (g.map fun p => (p.1, 1))) root

/-- a chain of `d` levels in which every level refers to the next one twice. -/
def diamond : Nat → Graph
  | 0 => [([Char.ofNat 48], [])]
  | d + 1 => ((Char.ofNat (49 + d)) :: [], [[Char.ofNat (48 + d)], [Char.ofNat (48 + d)]]) :: diamond d

end Sebuf
