import Sebuf.OaEmit
import Sebuf.OpenApi
import Sebuf.Lemmas.OaComp
import Sebuf.Route
import Sebuf.Props.C03
import Sebuf.Lemmas.PropsC18
/-!
# C18 — each OpenAPI document is well-formed, complete and format-independent

Proved on the model: the `format` parameter table and file naming (regenerated from the plugin's
main), one document per service, and that the path variables of an operation's template are
exactly the declared path parameters when the base path holds no variable. Uniqueness of
operations is `C03.one_operation_partial`. Reference resolution, parameter uniqueness, schema
completeness and JSON/YAML equivalence are evaluated by the Lean `OpenApi.check` / `JsonSchema`
functions on the REAL emitted documents (the `oa_doc` oracle), for every generated schema.
-/
namespace Sebuf.C18
open Sebuf Sebuf.OaEmit

/-- **format parameter table** {absent, yaml, yml, json, anything else}. -/
theorem format_param :
    formatOf none = "FormatYAML" ∧ formatOf (some "yaml") = "FormatYAML" ∧ formatOf (some "yml") = "FormatYAML" ∧
    formatOf (some "json") = "FormatJSON" ∧ formatOf (some "xml") = "FormatYAML" ∧ formatOf (some "") = "FormatYAML" := by decide

/-- file extension per format. -/
theorem extensions : extOf "FormatJSON" = "json" ∧ extOf "FormatYAML" = "yaml" := by decide

/-- the emitter iterates the services of each file to generate and names the document after the
proto service name. -/
theorem naming_facts :
    Gen.OpenApiMain.fileNamePattern = "%s.openapi.%s" ∧ Gen.OpenApiMain.fileNameArg = "service.Desc.Name()" ∧
    Gen.OpenApiMain.onePerService = true ∧ Gen.OpenApiMain.skipsNonGenerate = true ∧ Gen.OpenApiMain.paramKey = "format" := by decide

/-- **one document per service**. -/
theorem one_doc_per_service (param : Option String) (services : List String) :
    (docNames param services).length = services.length := by
  unfold docNames; simp

/-- distinct services get distinct files. -/
theorem doc_names_distinct (param : Option String) (services : List String) (h : services.Nodup) :
    (docNames param services).Nodup := by
  unfold docNames
  exact List.Pairwise.map _ (fun a b hne hab => hne (docName_injective param a b hab)) h

/-! ### path variables of the template vs declared path parameters -/

/-- **path variables, full** (since `fix: openapi: declare every variable of the full path
template exactly once`): whenever the operation's path comes from a base path or an HTTP config,
the declared path parameters are exactly the variables of the operation's template, each once. -/
theorem path_vars_declared_once (m : MethodIn) (h : m.base ≠ [] ∨ m.hasConfig = true) :
    (route .openapi m).pathVars = uniqueFirst (extractPathParams (route .openapi m).template) ∧
    (route .openapi m).pathVars.Nodup ∧
    (∀ v, v ∈ (route .openapi m).pathVars ↔ v ∈ extractPathParams (route .openapi m).template) := by
  have hp : (route .openapi m).pathVars = uniqueFirst (extractPathParams (route .openapi m).template) := by
    simp only [route, openapiPathVars, openapiPath]
    have h' : m.base ≠ [] ∨ m.hasConfig = true := h
    simp [h']
  refine ⟨hp, ?_, ?_⟩
  · rw [hp]; exact uniqueFirst_nodup _
  · intro v; rw [hp]; exact mem_uniqueFirst _ v

/-- with a base path that holds no variable and a method path that repeats none, these are the
method path's variables in order (what the other generators bind: `C03.placement_partial`). -/
theorem path_vars_partial (m : MethodIn) (hb : '{' ∉ m.base) (hc : m.hasConfig = true) (hnd : (extractPathParams m.path).Nodup) :
    (route .openapi m).pathVars = extractPathParams m.path := by
  have := C03.openapi_path_vars_eq m hb (by simpa [pathVarsOf, hc] using hnd)
  simpa [route, pathVarsOf, hc] using this

/-- a variable in the base path is declared (entry `path_var_in_base_path_undeclared`, fixed; the
method-path-only reading `pathVarsOf` is what the generator used before). -/
theorem base_path_variable_declared :
    let m := C03.mk "S" "Get" "Get" "p" "/tenants/{tenant}" true "/users/{id}" 1 []
    extractPathParams (route .openapi m).template = ["tenant".toList, "id".toList] ∧
    (route .openapi m).pathVars = ["tenant".toList, "id".toList] ∧ pathVarsOf m = ["id".toList] := by decide

/-- a variable used twice in a path is declared once (entry `repeated_path_variable`, fixed). -/
theorem repeated_variable_declared_once :
    let m := C03.mk "S" "Get" "Get" "p" "" true "/a/{id}/b/{id}" 1 []
    (route .openapi m).pathVars = ["id".toList] ∧ pathVarsOf m = ["id".toList, "id".toList] := by decide

/-! ### JSON vs YAML renderings -/

/-- **format independence, partial**: a property whose name is not a YAML-1.1-only boolean keeps
its name in the JSON rendering. -/
theorem json_key_preserved_partial (k : String) (h : yaml11Bool k = none) : jsonRenderKey k = k := by
  unfold jsonRenderKey; rw [h]

/-- a field called `on`, `y`, `n`, `no`, … is published as property `true` / `false` in the JSON
document while the YAML document keeps its name (known finding `json_yaml_differ`). -/
theorem json_key_retyped :
    jsonRenderKey "on" = "true" ∧ jsonRenderKey "y" = "true" ∧ jsonRenderKey "n" = "false" ∧ jsonRenderKey "no" = "false" ∧
    jsonRenderKey "off" = "false" ∧ jsonRenderKey "yes" = "true" ∧ jsonRenderKey "name" = "name" := by decide

/-- a custom enum / discriminator value spelled like a YAML non-finite float makes `format=json`
panic while `format=yaml` succeeds (known finding `json_render_crash`). -/
theorem json_render_crash_witness : jsonRenderCrashes ["active", ".nan"] = true ∧ jsonRenderCrashes ["active", "nan"] = false := by decide

/-! ### component schemas -/
open Sebuf.OaComp in
/-- **completeness, partial**: when every schema name is used for one message only (no two
collected messages share a short name, none is called like a built-in error schema or like a
generated variant schema), every collected message has a component schema of its own —
for every schema, service and fuel. -/
theorem component_per_message_partial (rq : Request) (fuel : Nat) (svc : Service)
    (h : ∀ a ∈ collect rq fuel svc, ∀ b ∈ collect rq fuel svc, a.1 = b.1 → a.2 = b.2) :
    ∀ e ∈ collect rq fuel svc, lookupKV e.1 (components rq fuel svc) = some e.2 :=
  lookup_apply_consistent (collect rq fuel svc) builtinEvents h

open Sebuf.OaComp in
/-- the built-in error schemas are there unless a message is named like one. -/
theorem builtin_schemas_present (rq : Request) (fuel : Nat) (svc : Service) (b : Str) (hb : b ∈ builtin)
    (h : ∀ e ∈ collect rq fuel svc, e.1 ≠ b) : lookupKV b (components rq fuel svc) = some "#builtin".toList := by
  unfold components
  rw [lookup_apply_untouched b _ _ h]
  simp only [builtin, List.mem_cons, List.mem_nil_iff, or_false] at hb
  rcases hb with rfl | rfl | rfl <;> decide

namespace Witness
open Sebuf.OaComp

def itemA : Message := { fullName := ".p.A.Item".toList, name := "Item".toList, topLevel := false, fields := [{ name := "x".toList, kind := .string }] }
def itemB : Message := { fullName := ".p.B.Item".toList, name := "Item".toList, topLevel := false, fields := [{ name := "y".toList, kind := .int32 }] }
def msgA : Message := { fullName := ".p.A".toList, name := "A".toList, fields := [{ name := "item".toList, kind := .message, typeName := ".p.A.Item".toList }] }
def msgB : Message := { fullName := ".p.B".toList, name := "B".toList, fields := [{ name := "item".toList, kind := .message, typeName := ".p.B.Item".toList }] }
def svc : Service := { name := "S".toList, methods := [{ name := "Do".toList, input := ".p.A".toList, output := ".p.B".toList }] }
def rq : Request := { files := [{ name := "p.proto".toList, messages := [msgA, itemA, msgB, itemB], services := [svc] }] }

/-- **same-named nested types collide** (known finding `component_name_collision`): both `A.Item`
and `B.Item` are reachable, the document has ONE schema `Item`, and it describes `B.Item`; every
`$ref` to `A.Item` therefore denotes the wrong schema. -/
theorem same_named_nested_collide :
    ".p.A.Item".toList ∈ Spec.reach rq 8 svc ∧ ".p.B.Item".toList ∈ Spec.reach rq 8 svc ∧
    lookupKV "Item".toList (components rq 8 svc) = some ".p.B.Item".toList ∧
    Spec.complete rq 8 svc (components rq 8 svc) = false := by decide

def errMsg : Message := { fullName := ".p.Error".toList, name := "Error".toList, fields := [{ name := "code".toList, kind := .int32 }] }
def svcE : Service := { name := "S".toList, methods := [{ name := "Do".toList, input := ".p.A".toList, output := ".p.Error".toList }] }
def rqE : Request := { files := [{ name := "p.proto".toList, messages := [msgA, itemA, errMsg], services := [svcE] }] }

/-- a message named `Error` replaces the built-in error schema every `default` response refers to:
the message still has a schema of its own (C18 holds), the error responses no longer describe
sebuf's error body (a C06 matter). -/
theorem user_error_shadows_builtin :
    lookupKV "Error".toList (components rqE 8 svcE) = some ".p.Error".toList := by decide

end Witness

/-- **the reference check is sound**: when `OpenApi.check` reports `refsResolve` on a parsed document, every
`$ref` AND every `discriminator.mapping` target of every component schema and of every operation schema
names an existing component (the harness runs `check` on every REAL document, in every format). -/
theorem check_refs_sound (doc : Json) (h : (OpenApi.check doc).refsResolve = true) :
    ∀ s ∈ (OpenApi.components doc).map Prod.snd ++ (OpenApi.operations doc).flatMap (fun o => OpenApi.opSchemas o.2.2),
      (∀ r ∈ Schema.refs s, Schema.refResolves (OpenApi.components doc) r = true) ∧
      (∀ r ∈ OpenApi.mappingTargets s, Schema.refResolves (OpenApi.components doc) r = true) := by
  intro s hs
  simp only [OpenApi.check, List.isEmpty_iff, List.filter_eq_nil_iff, List.mem_append, List.mem_flatMap,
    Bool.not_eq_true'] at h hs
  constructor
  · intro r hr
    have := h r (Or.inl ⟨s, hs, hr⟩)
    simpa using this
  · intro r hr
    have := h r (Or.inr ⟨s, hs, hr⟩)
    simpa using this

/-- a mapping target is a reference although no `$ref` keyword carries it: a schema whose `oneOf` resolves
but whose `discriminator.mapping` names a missing component is flagged. -/
example :
    let ev : Json := .obj [("oneOf".toList, .arr [.obj [("$ref".toList, .str "#/components/schemas/E_a".toList)]]),
      ("discriminator".toList, .obj [("propertyName".toList, .str "t".toList),
        ("mapping".toList, .obj [("a:b".toList, .str "#/components/schemas/E_a:b".toList)])])]
    OpenApi.mappingTargets ev = ["#/components/schemas/E_a:b".toList] ∧ Schema.refs ev = ["#/components/schemas/E_a".toList] ∧
    Schema.refResolves [("E_a".toList, .obj [])] "#/components/schemas/E_a:b".toList = false := by decide

open OpenApi in
theorem hasDup_false_nodup : ∀ (l : List Str), hasDup l = false → l.Nodup
  | [], _ => List.nodup_nil
  | x :: xs, h => by
    simp only [hasDup, Bool.or_eq_false_iff] at h
    refine List.nodup_cons.mpr ⟨?_, hasDup_false_nodup xs h.2⟩
    intro hm
    have : xs.contains x = true := List.contains_iff_mem.mpr hm
    rw [this] at h; exact absurd h.1 (by decide)

open OpenApi in
/-- **the path-parameter check is sound**: when `check` reports `pathVarsDeclared`, in every operation the
declared path parameters are pairwise distinct, are exactly the variables of the operation's path template,
and each is marked required. -/
theorem check_path_params_sound (doc : Json) (h : (OpenApi.check doc).pathVarsDeclared = true) :
    ∀ o ∈ operations doc,
      ((paramsIn "path" o.2.2).map fun p => strOf (field "name" p)).Nodup ∧
      (∀ v ∈ extractPathParams o.1, v ∈ (paramsIn "path" o.2.2).map fun p => strOf (field "name" p)) ∧
      (∀ d ∈ (paramsIn "path" o.2.2).map (fun p => strOf (field "name" p)), d ∈ extractPathParams o.1) ∧
      (∀ p ∈ paramsIn "path" o.2.2, isTrue (field "required" p) = true) := by
  intro o ho
  simp only [OpenApi.check, List.all_eq_true] at h
  have := h o ho
  simp only [Bool.and_eq_true, Bool.not_eq_true', List.all_eq_true, List.contains_iff_mem] at this
  obtain ⟨⟨⟨h1, h2⟩, h3⟩, h4⟩ := this
  exact ⟨hasDup_false_nodup _ h1, h2, h3, h4⟩

open OpenApi in
/-- **parameter names are unique per location** when `check` reports `paramNamesUnique`. -/
theorem check_param_names_sound (doc : Json) (h : (OpenApi.check doc).paramNamesUnique = true) :
    ∀ o ∈ operations doc, ∀ loc ∈ ["path", "query", "header", "cookie"],
      ((paramsIn loc o.2.2).map fun p => strOf (field "name" p)).Nodup := by
  intro o ho loc hl
  simp only [OpenApi.check, List.all_eq_true] at h
  have := h o ho loc hl
  simp only [Bool.not_eq_true'] at this
  exact hasDup_false_nodup _ this

open OpenApi in
/-- **operation ids are unique** across the document when `check` reports `opIdsUnique`. -/
theorem check_op_ids_sound (doc : Json) (h : (OpenApi.check doc).opIdsUnique = true) :
    ((operations doc).map fun o => strOf (field "operationId" o.2.2)).Nodup := by
  simp only [OpenApi.check, Bool.not_eq_true'] at h
  exact hasDup_false_nodup _ h

end Sebuf.C18
