package gen

import (
	"fmt"

	"verif/harness/ir"
)

// ZooMsg describes one request type of the decoder zoo: which generated-decoder template reads
// its body.
type ZooMsg struct {
	Name    string // message short name
	Feature string // int64 nullable empty ts bytes flatten oneofflat oneofnest ulist uscalars umap mapval enum plain
	RPC     string
	Path    string
	Verb    string
}

// GenDecoderZoo builds the schema C11 runs malformed bodies against: one request message per
// custom decoder template the go-http plugin can emit (each message carries ONE codec feature:
// two on one message do not compile, known finding C13 go:two_marshaljson_methods), every shape
// the emitted Go compiles for, each the request of one RPC on a body verb. r == nil gives the
// fixed probe the extractor parses (cmd/extract/decoders.go); otherwise names, numbers, extra
// plain fields and the presence of optional members vary with r.
func GenDecoderZoo(r *R, idx int) (*ir.Request, []ZooMsg) {
	pkg := "zoo.v1"
	if r != nil {
		pkg = Pick(r, []string{"zoo.v1", "dec.zoo", "z"})
	}
	f := &ir.File{Name: fmt.Sprintf("zoo%d/api.proto", idx), Package: pkg, GoPackage: "example.com/gen/zoo/v1;zoov1"}
	P := "." + pkg + "."
	A := func(a ir.Ann) ir.Ann { return a }
	note := func(no int32) *ir.Field {
		n := "note"
		if r != nil {
			n = Pick(r, []string{"note", "free_text", "label2"})
		}
		return &ir.Field{Name: n, Number: no, Kind: "string"}
	}
	extra := func(m *ir.Message) {
		if r == nil {
			return
		}
		no := int32(len(m.Fields) + 10)
		for i := 0; i < r.Intn(3); i++ {
			k := Pick(r, []string{"int32", "bool", "double", "string", "uint32", "sint64", "bytes", "fixed64"})
			fl := &ir.Field{Name: fmt.Sprintf("x%d_%s", no, k), Number: no, Kind: k}
			if r.P(1, 4) {
				fl.Card = "repeated"
			}
			m.Fields = append(m.Fields, fl)
			no++
		}
	}
	leaf := &ir.Message{Name: "Leaf", Fields: []*ir.Field{{Name: "street", Number: 1, Kind: "string"}, {Name: "zip_code", Number: 2, Kind: "int32"}}}
	reply := &ir.Message{Name: "Reply", Fields: []*ir.Field{{Name: "id", Number: 1, Kind: "string"}, {Name: "n", Number: 2, Kind: "int64"}}}
	en := &ir.Enum{Name: "Status", Values: []ir.EnumValue{{Name: "STATUS_UNSPECIFIED", Number: 0}, {Name: "STATUS_ACTIVE", Number: 1, Custom: sp("active")}, {Name: "STATUS_GONE", Number: 2}}}
	f.Enums = append(f.Enums, en)
	int64m := &ir.Message{Name: "Int64Req", Fields: []*ir.Field{
		{Name: "big", Number: 1, Kind: "int64", Ann: A(ir.Ann{Int64Enc: "NUMBER"})},
		{Name: "ubig", Number: 2, Kind: "uint64", Ann: A(ir.Ann{Int64Enc: "NUMBER"})},
		{Name: "bigs", Number: 3, Kind: "int64", Card: "repeated", Ann: A(ir.Ann{Int64Enc: "NUMBER"})},
		{Name: "ubigs", Number: 4, Kind: "fixed64", Card: "repeated", Ann: A(ir.Ann{Int64Enc: "NUMBER"})},
		{Name: "s_big", Number: 5, Kind: "sint64", Ann: A(ir.Ann{Int64Enc: "NUMBER"})},
		note(6)}}
	nullm := &ir.Message{Name: "NullReq", Fields: []*ir.Field{
		{Name: "maybe_s", Number: 1, Kind: "string", Card: "optional", Ann: A(ir.Ann{Nullable: bp(true)})},
		{Name: "maybe_n", Number: 2, Kind: "int32", Card: "optional", Ann: A(ir.Ann{Nullable: bp(true)})},
		{Name: "maybe_b", Number: 3, Kind: "bool", Card: "optional", Ann: A(ir.Ann{Nullable: bp(true)})},
		note(4)}}
	emptym := &ir.Message{Name: "EmptyReq", Fields: []*ir.Field{
		{Name: "meta_null", Number: 1, Kind: "message", TypeName: P + "Leaf", Ann: A(ir.Ann{EmptyBehavior: "NULL"})},
		{Name: "meta_omit", Number: 2, Kind: "message", TypeName: P + "Leaf", Ann: A(ir.Ann{EmptyBehavior: "OMIT"})},
		{Name: "meta_keep", Number: 3, Kind: "message", TypeName: P + "Leaf", Ann: A(ir.Ann{EmptyBehavior: "PRESERVE"})},
		note(4)}}
	tsm := &ir.Message{Name: "TsReq", Fields: []*ir.Field{
		{Name: "t_secs", Number: 1, Kind: "message", TypeName: tsType, Ann: A(ir.Ann{TsFormat: "UNIX_SECONDS"})},
		{Name: "t_millis", Number: 2, Kind: "message", TypeName: tsType, Ann: A(ir.Ann{TsFormat: "UNIX_MILLIS"})},
		{Name: "t_date", Number: 3, Kind: "message", TypeName: tsType, Ann: A(ir.Ann{TsFormat: "DATE"})},
		{Name: "t_rfc", Number: 4, Kind: "message", TypeName: tsType, Ann: A(ir.Ann{TsFormat: "RFC3339"})},
		note(5)}}
	bytesm := &ir.Message{Name: "BytesReq", Fields: []*ir.Field{
		{Name: "b_hex", Number: 1, Kind: "bytes", Ann: A(ir.Ann{BytesEnc: "HEX"})},
		{Name: "b_raw", Number: 2, Kind: "bytes", Ann: A(ir.Ann{BytesEnc: "BASE64_RAW"})},
		{Name: "b_url", Number: 3, Kind: "bytes", Ann: A(ir.Ann{BytesEnc: "BASE64URL"})},
		{Name: "b_urlraw", Number: 4, Kind: "bytes", Ann: A(ir.Ann{BytesEnc: "BASE64URL_RAW"})},
		{Name: "b_std", Number: 5, Kind: "bytes", Ann: A(ir.Ann{BytesEnc: "BASE64"})},
		note(6)}}
	flatm := &ir.Message{Name: "FlatReq", Fields: []*ir.Field{
		{Name: "title", Number: 1, Kind: "string"},
		{Name: "home", Number: 2, Kind: "message", TypeName: P + "Leaf", Ann: A(ir.Ann{Flatten: bp(true), FlattenPrefix: sp("home_")})},
		{Name: "work", Number: 3, Kind: "message", TypeName: P + "Leaf", Ann: A(ir.Ann{Flatten: bp(true)})}}}
	tv := &ir.Message{Name: "TextVariant", Fields: []*ir.Field{{Name: "body", Number: 1, Kind: "string"}, {Name: "lang_code", Number: 2, Kind: "string"}}}
	iv := &ir.Message{Name: "ImageVariant", Fields: []*ir.Field{{Name: "url", Number: 1, Kind: "string"}, {Name: "width", Number: 2, Kind: "int32"}}}
	of := &ir.Message{Name: "OneofFlatReq", Oneofs: []*ir.Oneof{{Name: "content", HasConfig: true, Discriminator: sp("type"), Flatten: true}}, Fields: []*ir.Field{
		{Name: "ident", Number: 1, Kind: "string"},
		{Name: "text", Number: 2, Kind: "message", TypeName: P + "TextVariant", Oneof: "content", Ann: A(ir.Ann{OneofValue: sp("txt")})},
		{Name: "image", Number: 3, Kind: "message", TypeName: P + "ImageVariant", Oneof: "content"}}}
	on := &ir.Message{Name: "OneofNestReq", Oneofs: []*ir.Oneof{{Name: "content", HasConfig: true, Discriminator: sp("kind")}}, Fields: []*ir.Field{
		{Name: "ident", Number: 1, Kind: "string"},
		{Name: "text", Number: 2, Kind: "message", TypeName: P + "TextVariant", Oneof: "content"},
		{Name: "image", Number: 3, Kind: "message", TypeName: P + "ImageVariant", Oneof: "content", Ann: A(ir.Ann{OneofValue: sp("img")})},
		{Name: "code", Number: 4, Kind: "int32", Oneof: "content"}}}
	ul := &ir.Message{Name: "UnwrapListReq", Fields: []*ir.Field{{Name: "items", Number: 1, Kind: "message", TypeName: P + "Leaf", Card: "repeated", Ann: A(ir.Ann{Unwrap: true})}}}
	usKind := "int32"
	if r != nil {
		usKind = Pick(r, []string{"int32", "string", "double", "uint32", "bool"})
	}
	us := &ir.Message{Name: "UnwrapScalarsReq", Fields: []*ir.Field{{Name: "items", Number: 1, Kind: usKind, Card: "repeated", Ann: A(ir.Ann{Unwrap: true})}}}
	um := &ir.Message{Name: "UnwrapMapReq", Fields: []*ir.Field{{Name: "entries", Number: 1, Kind: "message", TypeName: P + "Leaf", Card: "map", MapKey: "string", Ann: A(ir.Ann{Unwrap: true})}}}
	bl := &ir.Message{Name: "BarList", Fields: []*ir.Field{{Name: "bars", Number: 1, Kind: "message", TypeName: P + "Leaf", Card: "repeated", Ann: A(ir.Ann{Unwrap: true})}}}
	// the map-value unwrap container re-decodes its OTHER fields itself: message siblings (singular and
	// repeated) go through protojson element by element, scalars and ordinary maps through encoding/json
	mv := &ir.Message{Name: "MapValReq", Fields: []*ir.Field{{Name: "by_symbol", Number: 1, Kind: "message", TypeName: P + "BarList", Card: "map", MapKey: "string"}, note(2),
		{Name: "places", Number: 3, Kind: "message", TypeName: P + "Leaf", Card: "repeated"},
		{Name: "home", Number: 4, Kind: "message", TypeName: P + "Leaf"},
		{Name: "tags", Number: 5, Kind: "string", Card: "repeated"}}}
	em := &ir.Message{Name: "EnumReq", Fields: []*ir.Field{{Name: "status", Number: 1, Kind: "enum", TypeName: P + "Status", Ann: A(ir.Ann{EnumEnc: "STRING"})},
		{Name: "history", Number: 2, Kind: "enum", TypeName: P + "Status", Card: "repeated"}}}
	pl := &ir.Message{Name: "PlainReq", Oneofs: []*ir.Oneof{{Name: "pick"}}, Fields: []*ir.Field{
		{Name: "title", Number: 1, Kind: "string"},
		{Name: "amount", Number: 2, Kind: "int64"},
		{Name: "raw", Number: 3, Kind: "bytes"},
		{Name: "when", Number: 4, Kind: "message", TypeName: tsType},
		{Name: "home", Number: 5, Kind: "message", TypeName: P + "Leaf"},
		{Name: "nums", Number: 6, Kind: "sint64", Card: "repeated"},
		{Name: "props", Number: 7, Kind: "int32", Card: "map", MapKey: "string"},
		{Name: "weight", Number: 8, Kind: "double"},
		{Name: "shade", Number: 9, Kind: "enum", TypeName: P + "Status"},
		{Name: "opt_num", Number: 10, Kind: "uint32", Card: "optional"},
		{Name: "places", Number: 11, Kind: "message", TypeName: P + "Leaf", Card: "repeated"},
		{Name: "by_key", Number: 12, Kind: "message", TypeName: P + "Leaf", Card: "map", MapKey: "int32"},
		{Name: "as_text", Number: 13, Kind: "string", Oneof: "pick"},
		{Name: "as_leaf", Number: 14, Kind: "message", TypeName: P + "Leaf", Oneof: "pick"},
		{Name: "on", Number: 15, Kind: "bool"},
		{Name: "f32", Number: 16, Kind: "float"}}}
	for _, m := range []*ir.Message{int64m, nullm, emptym, tsm, bytesm, pl} {
		extra(m)
	}
	peek := &ir.Message{Name: "PeekReq", Fields: []*ir.Field{{Name: "q", Number: 1, Kind: "string", Ann: ir.Ann{Query: &ir.Query{Name: "q"}}}}}
	f.Messages = []*ir.Message{leaf, reply, peek, int64m, nullm, emptym, tsm, bytesm, flatm, tv, iv, of, on, ul, us, um, bl, mv, em, pl}
	zoo := []ZooMsg{
		{"Int64Req", "int64", "Int64", "/int64", "POST"},
		{"NullReq", "nullable", "Null", "/null", "POST"},
		{"EmptyReq", "empty", "Empty", "/empty", "PUT"},
		{"TsReq", "ts", "Ts", "/ts", "POST"},
		{"BytesReq", "bytes", "Bytes", "/bytes", "POST"},
		{"FlatReq", "flatten", "Flat", "/flat", "PATCH"},
		{"OneofFlatReq", "oneofflat", "OneofFlat", "/oneofflat", "POST"},
		{"OneofNestReq", "oneofnest", "OneofNest", "/oneofnest", "POST"},
		{"UnwrapListReq", "ulist", "UnwrapList", "/ulist", "POST"},
		{"UnwrapScalarsReq", "uscalars", "UnwrapScalars", "/uscalars", "PUT"},
		{"UnwrapMapReq", "umap", "UnwrapMap", "/umap", "POST"},
		{"MapValReq", "mapval", "MapVal", "/mapval", "POST"},
		{"EnumReq", "enum", "Enum", "/enum", "PATCH"},
		{"PlainReq", "plain", "Plain", "/plain", "POST"},
	}
	svc := &ir.Service{Name: "Zoo", BasePath: "/z"}
	for _, z := range zoo {
		svc.Methods = append(svc.Methods, &ir.Method{Name: z.RPC, Input: P + z.Name, Output: P + "Reply", Config: &ir.HTTPConfig{Path: z.Path, Method: z.Verb}})
	}
	// body-verb RPCs whose request has NO field left for the body (every field is a path variable; no field at all): a
	// body sent to them is still decoded — a malformed one is refused like anywhere else
	f.Messages = append(f.Messages,
		&ir.Message{Name: "TouchReq", Fields: []*ir.Field{{Name: "id", Number: 1, Kind: "string"}}},
		&ir.Message{Name: "MoveReq", Fields: []*ir.Field{{Name: "id", Number: 1, Kind: "string"}, {Name: "slot", Number: 2, Kind: "int32"}}},
		&ir.Message{Name: "PingReq"})
	svc.Methods = append(svc.Methods,
		&ir.Method{Name: "Touch", Input: P + "TouchReq", Output: P + "Reply", Config: &ir.HTTPConfig{Path: "/touch/{id}", Method: "PUT"}},
		&ir.Method{Name: "Move", Input: P + "MoveReq", Output: P + "Reply", Config: &ir.HTTPConfig{Path: "/move/{id}/{slot}", Method: "POST"}},
		&ir.Method{Name: "Ping", Input: P + "PingReq", Output: P + "Reply", Config: &ir.HTTPConfig{Path: "/ping", Method: "POST"}})
	// a bodiless RPC: its body must never be looked at
	svc.Methods = append(svc.Methods, &ir.Method{Name: "Peek", Input: P + "PeekReq", Output: P + "Reply", Config: &ir.HTTPConfig{Path: "/peek", Method: "GET"}})
	f.Services = append(f.Services, svc)
	return &ir.Request{Files: []*ir.File{f}, Generate: []string{f.Name}}, zoo
}
