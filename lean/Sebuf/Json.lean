import Sebuf.Str
/-!
JSON values of the model. Numbers are exact integers or opaque float tokens (the decimal text
the real encoder printed; no float arithmetic happens in the model). Objects are association
lists compared by lookup (`Json.oget`), because every surgery template ends in `json.Marshal`
of a Go map (keys re-sorted, duplicates dropped).
-/
namespace Sebuf

inductive JNum
  | int (i : Int)
  | float (tok : Str)
deriving DecidableEq, Repr

inductive Json
  | null
  | bool (b : Bool)
  | num (n : JNum)
  | str (s : Str)
  | arr (l : List Json)
  | obj (kvs : List (Str × Json))
deriving Repr

namespace Json

mutual
  def beq : Json → Json → Bool
    | null, null => true
    | bool a, bool b => a == b
    | num a, num b => a == b
    | str a, str b => a == b
    | arr a, arr b => beqList a b
    | obj a, obj b => beqObj a b
    | _, _ => false
  def beqList : List Json → List Json → Bool
    | [], [] => true
    | x :: xs, y :: ys => beq x y && beqList xs ys
    | _, _ => false
  def beqObj : List (Str × Json) → List (Str × Json) → Bool
    | [], [] => true
    | (k, x) :: xs, (l, y) :: ys => k == l && beq x y && beqObj xs ys
    | _, _ => false
end

instance : BEq Json := ⟨beq⟩

/-- object lookup: first binding of the key. -/
def oget (k : Str) : List (Str × Json) → Option Json
  | [] => none
  | (k', v) :: t => if k' = k then some v else oget k t

/-- object update: replaces the first binding or appends. -/
def oset (k : Str) (v : Json) : List (Str × Json) → List (Str × Json)
  | [] => [(k, v)]
  | (k', v') :: t => if k' = k then (k, v) :: t else (k', v') :: oset k v t

/-- object delete: removes every binding of the key. -/
def odel (k : Str) : List (Str × Json) → List (Str × Json)
  | [] => []
  | (k', v') :: t => if k' = k then odel k t else (k', v') :: odel k t

def keys (o : List (Str × Json)) : List Str := o.map Prod.fst

def isNull : Json → Bool | null => true | _ => false
def isObj : Json → Bool | obj _ => true | _ => false
def isArr : Json → Bool | arr _ => true | _ => false
def isStr : Json → Bool | str _ => true | _ => false
def isNum : Json → Bool | num _ => true | _ => false
def isBool : Json → Bool | bool _ => true | _ => false

theorem oget_oset_same (k : Str) (v : Json) (o : List (Str × Json)) : oget k (oset k v o) = some v := by
  induction o with
  | nil => simp [oset, oget]
  | cons p t ih =>
    obtain ⟨k', v'⟩ := p
    by_cases h : k' = k
    · simp [oset, oget, h]
    · simp [oset, oget, h, ih]

theorem oget_oset_other (k k2 : Str) (v : Json) (o : List (Str × Json)) (h : k2 ≠ k) :
    oget k2 (oset k v o) = oget k2 o := by
  induction o with
  | nil => simp [oset, oget]; intro e; exact absurd e.symm h
  | cons p t ih =>
    obtain ⟨k', v'⟩ := p
    by_cases h1 : k' = k
    · subst h1
      have : ¬ k' = k2 := fun e => h e.symm
      simp [oset, oget, this]
    · by_cases h2 : k' = k2
      · subst h2; simp [oset, oget, h]
      · simp [oset, oget, h1, h2, ih]

theorem oget_odel_same (k : Str) (o : List (Str × Json)) : oget k (odel k o) = none := by
  induction o with
  | nil => rfl
  | cons p t ih =>
    obtain ⟨k', v'⟩ := p
    by_cases h : k' = k
    · simp [odel, h, ih]
    · simp [odel, oget, h, ih]

theorem oget_odel_other (k k2 : Str) (o : List (Str × Json)) (h : k2 ≠ k) :
    oget k2 (odel k o) = oget k2 o := by
  induction o with
  | nil => rfl
  | cons p t ih =>
    obtain ⟨k', v'⟩ := p
    by_cases h1 : k' = k
    · subst h1
      have : ¬ k' = k2 := fun e => h e.symm
      simp [odel, oget, this, ih]
    · by_cases h2 : k' = k2
      · subst h2; simp [odel, oget, h]
      · simp [odel, oget, h1, h2, ih]

end Json
end Sebuf
